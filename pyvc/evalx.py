"""pyvc.evalx -- expression evaluation (shared by code and contracts)."""
import ast
import z3
from .ty import *
from .state import *
from .spec import REG

PURE_BUILTINS = {'len', 'range', 'min', 'max', 'abs', 'int', 'float', 'bool', 'tuple', 'isinstance', 'all', 'any',
                 'old', 'implies', 'iff', 'ite', 'lam', 'mapset', 'key_at', 'sorted', 'sum', 'round', 'keyify', 'enumerate', 'zip',
                 'list', 'set', 'type', 'str'}


def has_impure_call(node):
    for n in ast.walk(node):
        if isinstance(n, ast.Call):
            f = n.func
            if isinstance(f, ast.Name) and (f.id in PURE_BUILTINS or f.id in REG.predicates or f.id in REG.ufuncs):
                continue
            return True
    return False


def z3and(xs):
    xs = [x for x in xs if not z3.is_true(x)]
    if not xs:
        return z3.BoolVal(True)
    if len(xs) == 1:
        return xs[0]
    return z3.And(xs)


def split_goal(g, depth=0):
    """split conjunctions (also under forall / implication) into separate goals: smaller queries"""
    if depth > 6:
        return [g]
    if z3.is_and(g):
        out = []
        for c in g.children():
            out.extend(split_goal(c, depth + 1))
        return out
    if z3.is_implies(g) and (z3.is_and(g.arg(1)) or z3.is_quantifier(g.arg(1))):
        return [z3.Implies(g.arg(0), x) for x in split_goal(g.arg(1), depth + 1)]
    if z3.is_quantifier(g) and g.is_forall():
        n = g.num_vars()
        vs = [z3.Const(g.var_name(i), g.var_sort(i)) for i in range(n)]
        body = z3.substitute_vars(g.body(), *reversed(vs))
        parts = split_goal(body, depth + 1)
        if len(parts) > 1:
            return [z3.ForAll(vs, x) for x in parts]
    return [g]


def _summands(e):
    if z3.is_add(e):
        return [y for c in e.children() for y in _summands(c)]
    return [e]


def peel_last(g):
    """goal-side only:  (forall q. lo <= q < X + 1 -> phi(q))  ==  (forall q. lo <= q < X -> phi(q))  and  (lo <= X -> phi(X)).
    The second conjunct is the *ground* instance at the new index of a loop-extended range: its terms are exactly those the
    loop body produced, so E-matching has something to work with (otherwise the solver must guess q == X by arithmetic)."""
    if not (z3.is_quantifier(g) and g.is_forall() and g.num_vars() == 1 and g.var_sort(0).kind() == z3.Z3_INT_SORT):
        return [g]
    q = z3.Const(g.var_name(0), g.var_sort(0))
    body = z3.substitute_vars(g.body(), q)
    if not (z3.is_implies(body) and z3.is_and(body.arg(0))):
        return [g]
    guard = list(body.arg(0).children())
    hi = None
    for c in guard:
        if z3.is_lt(c) and c.arg(0).eq(q) and z3.is_add(c.arg(1)) and any(z3.is_int_value(x) and x.as_long() >= 1 for x in _summands(c.arg(1))):
            hi = c
    if hi is None or any((not c.eq(hi)) and not ((z3.is_le(c) and c.arg(1).eq(q)) or (z3.is_ge(c) and c.arg(0).eq(q))) for c in guard):
        return [g]
    X = z3.simplify(hi.arg(1) - 1)
    rest = [c for c in guard if not c.eq(hi)]
    g1 = z3.ForAll([q], z3.Implies(z3.And(rest + [q < X]), body.arg(1)))
    g2 = z3.Implies(z3.And([z3.substitute(c, (q, X)) for c in rest]) if rest else z3.BoolVal(True), z3.substitute(body.arg(1), (q, X)))
    return [g1, g2]


def py_floordiv(a, b):
    return z3.If(b > 0, a / b, (-a) / (-b))


def py_mod(a, b):
    # z3's mod has the sign of ... always in [0, |b|): equals Python's % for b > 0; for b < 0 Python's result is in (b, 0]
    bs = z3.simplify(b)
    if z3.is_int_value(bs) and bs.as_long() > 0:
        return a % b
    return z3.If(b > 0, a % b, -((-a) % (-b)))


class EvalMixin:

    # ------------------------------------------------------------------ obligations
    def oblige(self, st, goal, kind, label, node=None):
        """record the obligation pc => goal (no-op in spec mode and while recording)"""
        if st.spec or st.recording is not None or self.suppress_obligations:
            return
        if z3.is_true(goal):
            self.trivial += 1
        where = getattr(node, 'lineno', None)
        parts = split_goal(goal) if FINITE['K'] is None else [goal]
        if FINITE['K'] is None and kind == 'invariant' and ':inv-preserved' in label:
            parts = [y for x in parts for y in peel_last(x)]
        if len(parts) == 1:
            self.obligations.append(Ob(label, st.pc, goal, kind, tuple(st.path), where, self.current_fn, dict(st.env), dict(st.store)))
        else:
            for j, g in enumerate(parts):
                self.obligations.append(Ob('%s/%d' % (label, j), st.pc, g, kind, tuple(st.path), where, self.current_fn, dict(st.env), dict(st.store)))

    def safety(self, st, goal, what, node):
        txt = ''
        try:
            txt = ast.unparse(node)[:60]
        except Exception:
            pass
        self.oblige(st, goal, 'safety', 'safety:%s@%s' % (what, txt), node)
        st.assume(goal)     # continue on the non-failing side (the failing side is the obligation)

    def proves_quick(self, st, fact, ms=150):
        f = z3.simplify(fact)
        if z3.is_true(f):
            return True
        if z3.is_false(f):
            return False
        s = z3.Solver()
        s.set('timeout', ms)
        s.add(st.pc)
        s.add(z3.Not(f))
        return s.check() == z3.unsat

    # ------------------------------------------------------------------ coercions
    def lift(self, v):
        if isinstance(v, bool):
            return mk_bool(v)
        if isinstance(v, int):
            return mk_int(v)
        if isinstance(v, float):
            return mk_real(v)
        if isinstance(v, str):
            return StrConst(v)
        if v is None:
            return NONEV
        if type(v).__name__ == 'EnumConst':
            return mk_int(self.enum_index(v))
        return v

    def enum_index(self, ec):
        """enum members are identified by their declaration order in the class body (read from the source)"""
        ci = self.class_info(ec.cls)
        names = []
        for n in ci.node.body:
            if isinstance(n, ast.Assign):
                for t in n.targets:
                    if isinstance(t, ast.Name):
                        names.append(t.id)
        return names.index(ec.name)

    def truth(self, v, st):
        v = self.lift(v)
        if isinstance(v, SV):
            k = v.t.kind
            if k == 'bool':
                return v.e
            if k == 'int':
                return v.e != 0
            if k == 'real':
                return v.e != 0
        if isinstance(v, NoneV):
            return z3.BoolVal(False)
        if isinstance(v, OptV):
            inner = self.truth(v.val, st)
            return z3.And(z3.Not(v.none), inner)
        if isinstance(v, Ref):
            c = st.store[v.id]
            if isinstance(c, (ListC, DictC, SetC)):
                return c.n > 0
            if isinstance(c, ObjC):
                m = self.find_method_for(c.cls, '__len__')
                if m is None:
                    return z3.BoolVal(True)
        if isinstance(v, TupV):
            return z3.BoolVal(len(v.items) > 0)
        if isinstance(v, StrConst):
            return z3.BoolVal(len(v.s) > 0)
        raise OutOfSubset('truth value of %r' % (v,))

    def num(self, v, st, node=None):
        """-> (z3 arith expr, 'int'|'real')"""
        v = self.lift(v)
        if isinstance(v, OptV):
            self.safety(st, z3.Not(v.none), 'not-None', node)
            v = v.val
        if isinstance(v, SV):
            if v.t.kind == 'int':
                return v.e, 'int'
            if v.t.kind == 'real':
                return v.e, 'real'
            if v.t.kind == 'bool':
                return z3.If(v.e, z3.IntVal(1), z3.IntVal(0)), 'int'
        raise OutOfSubset('number expected, got %r (%s)' % (v, ast.unparse(node) if node is not None else ''))

    def deopt(self, v, st, node):
        if isinstance(v, OptV):
            self.safety(st, z3.Not(v.none), 'not-None', node)
            return v.val
        if isinstance(v, NoneV) and not st.spec:
            self.safety(st, z3.BoolVal(False), 'not-None', node)
            raise PathEnd()
        return v

    # ------------------------------------------------------------------ equality
    def eq(self, a, b, st):
        """structural Python == as a z3 Bool"""
        a, b = self.lift(a), self.lift(b)
        if isinstance(a, NoneV) or isinstance(b, NoneV):
            if isinstance(a, NoneV) and isinstance(b, NoneV):
                return z3.BoolVal(True)
            o = b if isinstance(a, NoneV) else a
            if isinstance(o, OptV):
                return o.none
            if isinstance(o, SV) and o.t.kind == 'opt':
                return sort_of(o.t).is_none(o.e)
            return z3.BoolVal(False)
        if isinstance(a, OptV) or isinstance(b, OptV):
            if isinstance(a, OptV) and isinstance(b, OptV):
                return z3.Or(z3.And(a.none, b.none), z3.And(z3.Not(a.none), z3.Not(b.none), self.eq(a.val, b.val, st)))
            o, x = (a, b) if isinstance(a, OptV) else (b, a)
            return z3.And(z3.Not(o.none), self.eq(o.val, x, st))
        if isinstance(a, StrConst) and isinstance(b, StrConst):
            return z3.BoolVal(a.s == b.s)
        if isinstance(a, StrConst) or isinstance(b, StrConst):
            s, o = (a, b) if isinstance(a, StrConst) else (b, a)
            if isinstance(o, SV) and o.t.kind == 'str':
                return o.e == z3.StringVal(s.s)
            return z3.BoolVal(False)
        if isinstance(a, TupV) and isinstance(b, TupV):
            if len(a.items) != len(b.items):
                return z3.BoolVal(False)
            return z3and([self.eq(x, y, st) for x, y in zip(a.items, b.items)])
        if isinstance(a, TupV) and isinstance(b, SV) and b.t.kind == 'tuple':
            return self.eq(a, unpack(st, b.e, b.t), st)
        if isinstance(b, TupV) and isinstance(a, SV) and a.t.kind == 'tuple':
            return self.eq(unpack(st, a.e, a.t), b, st)
        if isinstance(a, SV) and isinstance(b, SV):
            ka, kb = a.t.kind, b.t.kind
            if ka in ('int', 'real', 'bool') and kb in ('int', 'real', 'bool'):
                if ka == kb:
                    return a.e == b.e
                x, _ = self.num(a, st)
                y, _ = self.num(b, st)
                if z3.is_int(x) != z3.is_int(y):
                    x = z3.ToReal(x) if z3.is_int(x) else x
                    y = z3.ToReal(y) if z3.is_int(y) else y
                return x == y
            if a.t == b.t:
                if ka in ('list', 'dict', 'set'):
                    return self.eq(unpack(st, a.e, a.t), unpack(st, b.e, b.t), st)
                return a.e == b.e
            if ka == 'tuple' and kb == 'tuple':
                return self.eq(unpack(st, a.e, a.t), unpack(st, b.e, b.t), st)
            return z3.BoolVal(False)
        if isinstance(a, Ref) and isinstance(b, Ref):
            ca, cb = st.store[a.id], st.store[b.id]
            if a.id == b.id:
                return z3.BoolVal(True)
            if isinstance(ca, ListC) and isinstance(cb, ListC):
                def body(i):
                    ea = unpack(st, z3.Select(ca.arr, i), ca.t.args[0])
                    eb = unpack(st, z3.Select(cb.arr, i), cb.t.args[0])
                    return self.eq(ea, eb, st)
                return z3.And(ca.n == cb.n, q_index(ca.n, body))
            if isinstance(ca, SetC) and isinstance(cb, SetC) and ca.t == cb.t:
                return q_sort(ca.t.args[0], lambda k: z3.Select(ca.dom, k) == z3.Select(cb.dom, k))
            if isinstance(ca, DictC) and isinstance(cb, DictC) and ca.t == cb.t:
                return q_sort(ca.t.args[0], lambda k: z3.And(z3.Select(ca.dom, k) == z3.Select(cb.dom, k),
                                                            z3.Implies(z3.Select(ca.dom, k), z3.Select(ca.val, k) == z3.Select(cb.val, k))))
            if isinstance(ca, ObjC) and isinstance(cb, ObjC):
                raise OutOfSubset('== on objects')
        if isinstance(a, Ref) and isinstance(b, SV) and b.t.kind in ('list', 'dict', 'set'):
            return self.eq(a, unpack(st, b.e, b.t), st)
        if isinstance(b, Ref) and isinstance(a, SV) and a.t.kind in ('list', 'dict', 'set'):
            return self.eq(unpack(st, a.e, a.t), b, st)
        if isinstance(a, Ref) and isinstance(b, TupV) or isinstance(b, Ref) and isinstance(a, TupV):
            return z3.BoolVal(False)      # list == tuple is False in Python
        raise OutOfSubset('== between %r and %r' % (a, b))

    # ------------------------------------------------------------------ container primitives
    def norm_index(self, st, idx, n, node, what='index'):
        """Python index normalisation incl. negative indices; emits the in-range obligation"""
        i, k = self.num(idx, st, node)
        if k != 'int':
            raise OutOfSubset('non-integer index')
        if st.spec:
            return i          # contracts index mathematically (no wrap-around)
        if self.proves_quick(st, i >= 0):
            j = i
        else:
            j = z3.simplify(z3.If(i < 0, i + n, i))
        self.safety(st, z3.And(0 <= j, j < n), what, node)
        return j

    def list_get(self, st, ref, idx, node):
        c = st.store[ref.id]
        j = self.norm_index(st, idx, c.n, node)
        return unpack(st, z3.Select(c.arr, j), c.t.args[0], parent=(ref, j))

    def list_set(self, st, ref, idx, val, node):
        c = st.store[ref.id]
        j = self.norm_index(st, idx, c.n, node, 'index-store')
        try:
            pv = pack(st, val, c.t.args[0])
        except TypeError as e:
            raise OutOfSubset('list element type: %s' % e)
        st.store[ref.id] = ListC(c.t, z3.Store(c.arr, j, pv), c.n, c.parent)
        st.record_write(('cell', root_of(st, ref).id))
        write_through(st, ref)

    def list_append(self, st, ref, val):
        c = st.store[ref.id]
        val = self.lift(val)
        if isinstance(val, OptV) and c.t.args[0].kind != 'opt':
            # an optional value stored in a list of plain values: fine when None is excluded on this path
            # (e.g. after `if x is None: continue`); otherwise the typed model cannot represent the list
            alt = st.fork()
            alt.pc.append(val.none)
            if self.feasible(alt):
                raise OutOfSubset('possibly-None value appended to a %r' % (c.t,))
            val = val.val
        try:
            pv = pack(st, val, c.t.args[0])
        except TypeError as e:
            raise OutOfSubset('list element type: %s' % e)
        st.store[ref.id] = ListC(c.t, z3.Store(c.arr, c.n, pv), c.n + 1, c.parent)
        st.record_write(('cell', root_of(st, ref).id))
        write_through(st, ref)

    def key_pack(self, st, c, key):
        try:
            return pack(st, key, c.t.args[0])
        except TypeError as e:
            raise OutOfSubset('key type: %s' % e)

    def dict_contains(self, st, ref, key):
        c = st.store[ref.id]
        try:
            k = pack(st, key, c.t.args[0])
        except TypeError:
            return z3.BoolVal(False)
        return z3.Select(c.dom, k)

    def dict_get(self, st, ref, key, node):
        c = st.store[ref.id]
        k = self.key_pack(st, c, key)
        self.safety(st, z3.Select(c.dom, k), 'key', node)
        return unpack(st, z3.Select(c.val, k), c.t.args[1], parent=(ref, k))

    def dict_set(self, st, ref, key, val):
        c = st.store[ref.id]
        k = self.key_pack(st, c, key)
        try:
            pv = pack(st, val, c.t.args[1])
        except TypeError as e:
            raise OutOfSubset('dict value type: %s' % e)
        isin = z3.Select(c.dom, k)
        st.store[ref.id] = DictC(c.t, z3.Store(c.dom, k, z3.BoolVal(True)), z3.Store(c.val, k, pv),
                                 z3.If(isin, c.keys, z3.Store(c.keys, c.n, k)),
                                 z3.If(isin, c.pos, z3.Store(c.pos, k, c.n)),
                                 z3.If(isin, c.n, c.n + 1), c.parent)
        st.record_write(('cell', root_of(st, ref).id))
        write_through(st, ref)

    def set_add(self, st, ref, val):
        c = st.store[ref.id]
        k = self.key_pack(st, c, val)
        isin = z3.Select(c.dom, k)
        st.store[ref.id] = SetC(c.t, z3.Store(c.dom, k, z3.BoolVal(True)),
                                z3.If(isin, c.keys, z3.Store(c.keys, c.n, k)),
                                z3.If(isin, c.pos, z3.Store(c.pos, k, c.n)),
                                z3.If(isin, c.n, c.n + 1), c.parent)
        st.record_write(('cell', root_of(st, ref).id))
        write_through(st, ref)

    def contains(self, st, cont, x, node):
        """x in cont -> z3 Bool"""
        cont = self.lift(cont)
        x = self.lift(x)
        if isinstance(x, OptV) and not (isinstance(cont, Ref) and cont.t.args and cont.t.args[0].kind == 'opt'):
            inner = self.contains(st, cont, x.val, node)
            return None if inner is None else z3.And(z3.Not(x.none), inner)
        if isinstance(x, NoneV) and isinstance(cont, Ref) and cont.t.args and cont.t.args[0].kind != 'opt':
            return z3.BoolVal(False)
        if isinstance(cont, OptV):
            cont = self.deopt(cont, st, node)
        if isinstance(cont, SV) and cont.t.kind in ('list', 'dict', 'set'):
            cont = unpack(st, cont.e, cont.t)
        if isinstance(cont, SV) and cont.t.kind == 'tuple':
            cont = unpack(st, cont.e, cont.t)
        if isinstance(cont, TupV):
            return z3.Or([self.eq(x, y, st) for y in cont.items]) if cont.items else z3.BoolVal(False)
        if isinstance(cont, RangeV):
            xi, _ = self.num(x, st, node)
            lo, _ = self.num(cont.start, st)
            hi, _ = self.num(cont.stop, st)
            return z3.And(lo <= xi, xi < hi)
        if isinstance(cont, Ref):
            c = st.store[cont.id]
            if isinstance(c, DictC):
                return self.dict_contains(st, cont, x)
            if isinstance(c, SetC):
                try:
                    return z3.Select(c.dom, pack(st, x, c.t.args[0]))
                except TypeError:
                    return z3.BoolVal(False)
            if isinstance(c, ListC):
                return q_index(c.n, lambda i: self.eq(unpack(st, z3.Select(c.arr, i), c.t.args[0]), x, st), kind='any', name='mi')
            if isinstance(c, ObjC):
                return None      # caller dispatches to __contains__
        raise OutOfSubset('`in` on %r' % (cont,))

    # ------------------------------------------------------------------ the evaluator
    def ev(self, e, st):
        m = getattr(self, 'ev_' + type(e).__name__, None)
        if m is None:
            raise OutOfSubset('expression %s' % type(e).__name__)
        yield from m(e, st)

    def ev1(self, e, st):
        """single-outcome evaluation (contracts, pure expressions)"""
        out = list(self.ev(e, st))
        if len(out) != 1:
            raise OutOfSubset('expression forks: %s' % ast.unparse(e))
        return out[0][0]

    def ev_list(self, es, st):
        if not es:
            yield [], st
            return
        for v, st1 in self.ev(es[0], st):
            for vs, st2 in self.ev_list(es[1:], st1):
                yield [v] + vs, st2

    def ev_Constant(self, e, st):
        v = e.value
        if isinstance(v, (bool, int, float, str)) or v is None:
            yield self.lift(v), st
        elif v is Ellipsis:
            raise OutOfSubset('Ellipsis')
        else:
            raise OutOfSubset('constant %r' % (v,))

    def ev_Name(self, e, st):
        n = e.id
        if n in st.env:
            yield st.env[n], st
            return
        v = self.resolve_global(n, st)
        if v is None:
            raise OutOfSubset('unbound name %s' % n)
        yield v, st

    def ev_Tuple(self, e, st):
        if any(isinstance(x, ast.Starred) for x in e.elts):
            raise OutOfSubset('starred in tuple')
        for vs, st1 in self.ev_list(e.elts, st):
            yield TupV(vs), st1

    def ev_List(self, e, st):
        if not e.elts:
            yield EmptyV('list'), st
            return
        for vs, st1 in self.ev_list(e.elts, st):
            yield self.make_list(st1, vs), st1

    def make_list(self, st, vs, t=None):
        if t is None:
            et = None
            for v in vs:
                et = join_types(et, type_of(self.lift(v)))
            if et is None:
                et = self.hint_elem_type or INT
            t = Ty('list', [et])
        es = sort_of(t.args[0])
        arr = fresh_const('lit_arr', z3.ArraySort(z3.IntSort(), es)) if vs else z3.K(z3.IntSort(), self.default_of(st, t.args[0]))
        for i, v in enumerate(vs):
            arr = z3.Store(arr, i, pack(st, self.lift(v), t.args[0]))
        return new_list(st, t, arr, z3.IntVal(len(vs)))

    def default_of(self, st, t):
        return fresh_const('dflt', sort_of(t))

    def ev_Set(self, e, st):
        for vs, st1 in self.ev_list(e.elts, st):
            et = None
            for v in vs:
                et = join_types(et, type_of(self.lift(v)))
            r = new_set(st1, Ty('set', [et]), empty=True)
            for v in vs:
                self.set_add(st1, r, v)
            yield r, st1

    def ev_Dict(self, e, st):
        if any(k is None for k in e.keys):
            raise OutOfSubset('dict unpacking')
        for ks, st1 in self.ev_list(e.keys, st):
            for vs, st2 in self.ev_list(e.values, st1):
                kt = vt = None
                for k in ks:
                    kt = join_types(kt, type_of(self.lift(k)))
                for v in vs:
                    vt = join_types(vt, type_of(self.lift(v)))
                if kt is None:
                    yield EmptyV('dict'), st2
                    continue
                else:
                    t = Ty('dict', [kt, vt])
                r = new_dict(st2, t, empty=True)
                for k, v in zip(ks, vs):
                    self.dict_set(st2, r, k, v)
                yield r, st2

    def ev_UnaryOp(self, e, st):
        for v, st1 in self.ev(e.operand, st):
            if isinstance(e.op, ast.Not):
                yield SV(BOOL, z3.Not(self.truth(v, st1))), st1
            elif isinstance(e.op, ast.USub):
                x, k = self.num(v, st1, e)
                yield SV(INT if k == 'int' else REAL, -x), st1
            elif isinstance(e.op, ast.UAdd):
                yield v, st1
            else:
                raise OutOfSubset('unary %s' % type(e.op).__name__)

    def ev_BinOp(self, e, st):
        for l, st1 in self.ev(e.left, st):
            for r, st2 in self.ev(e.right, st1):
                yield self.binop(e.op, l, r, st2, e), st2

    def binop(self, op, l, r, st, node):
        l, r = self.lift(l), self.lift(r)
        vec = self.vec_binop(op, l, r, st, node)
        if vec is not None:
            return vec
        # sequence operations
        if isinstance(op, ast.Add):
            if isinstance(l, TupV) and isinstance(r, TupV):
                return TupV(l.items + r.items)
            if isinstance(l, Ref) and isinstance(r, Ref):
                return self.list_concat(st, l, r)
            if isinstance(l, StrConst) and isinstance(r, StrConst):
                return StrConst(l.s + r.s)
        if isinstance(op, ast.Mult) and isinstance(l, Ref) and isinstance(st.store[l.id], ListC):
            c = st.store[l.id]
            if z3.is_int_value(z3.simplify(c.n)) and z3.simplify(c.n).as_long() == 1:
                m, _ = self.num(r, st, node)
                el = z3.Select(c.arr, 0)
                return new_list(st, c.t, z3.K(z3.IntSort(), el), z3.If(m > 0, m, 0))
            raise OutOfSubset('list * n')
        x, kx = self.num(l, st, node)
        y, ky = self.num(r, st, node)
        real = 'real' in (kx, ky)
        if real:
            if kx == 'int':
                x = z3.ToReal(x)
            if ky == 'int':
                y = z3.ToReal(y)
        T = REAL if real else INT
        if isinstance(op, ast.Add):
            return SV(T, x + y)
        if isinstance(op, ast.Sub):
            return SV(T, x - y)
        if isinstance(op, ast.Mult):
            return SV(T, x * y)
        if isinstance(op, ast.Div):
            if not real:
                x, y = z3.ToReal(x), z3.ToReal(y)
            self.safety(st, y != 0, 'div-by-zero', node)
            return SV(REAL, x / y)
        if isinstance(op, ast.FloorDiv):
            if real:
                raise OutOfSubset('float //')
            self.safety(st, y != 0, 'div-by-zero', node)
            return SV(INT, py_floordiv(x, y))
        if isinstance(op, ast.Mod):
            if real:
                # Python float %: result has the sign of the divisor; x = k*y + r with integer k
                k_ = fresh_const('modk', z3.IntSort())
                self.safety(st, y != 0, 'div-by-zero', node)
                r_ = x - z3.ToReal(k_) * y
                st.assume(z3.If(y > 0, z3.And(0 <= r_, r_ < y), z3.And(y < r_, r_ <= 0)))
                return SV(REAL, r_)
            self.safety(st, y != 0, 'div-by-zero', node)
            return SV(INT, py_mod(x, y))
        if isinstance(op, ast.Pow):
            ys = z3.simplify(y)
            if z3.is_int_value(ys) and 0 <= ys.as_long() <= 8:
                res = z3.IntVal(1) if not real else z3.RealVal(1)
                for _ in range(ys.as_long()):
                    res = res * x
                return SV(T, res)
            raise OutOfSubset('** with non-constant exponent')
        raise OutOfSubset('operator %s' % type(op).__name__)

    def vec_binop(self, op, l, r, st, node):
        return None

    def list_concat(self, st, l, r):
        cl, cr = st.store[l.id], st.store[r.id]
        if not (isinstance(cl, ListC) and isinstance(cr, ListC)):
            raise OutOfSubset('+ on non-lists')
        t = cl.t if cl.t == cr.t else Ty('list', [join_types(cl.t.args[0], cr.t.args[0])])
        pl = sort_of(t)
        la = pl.arr(pack(st, l, t)) if cl.t != t else cl.arr
        ra = pl.arr(pack(st, r, t)) if cr.t != t else cr.arr
        i = fresh_const('cc', z3.IntSort())
        arr = z3.Lambda([i], z3.If(i < cl.n, z3.Select(la, i), z3.Select(ra, i - cl.n)))
        return new_list(st, t, arr, cl.n + cr.n)

    def ev_BoolOp(self, e, st):
        is_and = isinstance(e.op, ast.And)
        if st.spec or not any(has_impure_call(v) for v in e.values[1:]):
            # pure: build And/Or, guarding the safety obligations of later operands
            conds = []
            cur = st
            vals = []
            for i, sub in enumerate(e.values):
                g = cur.fork() if i > 0 else cur
                if i > 0:
                    g.pc.append(conds[-1] if is_and else z3.Not(conds[-1]))
                out = list(self.ev(sub, g))
                if len(out) != 1:
                    raise OutOfSubset('forking operand of and/or')
                v = out[0][0]
                vals.append(v)
                conds.append(self.truth(v, g))
            if all(isinstance(self.lift(v), SV) and self.lift(v).t.kind == 'bool' for v in vals) or st.spec:
                yield SV(BOOL, z3.And(conds) if is_and else z3.Or(conds)), st
                return
            # value-returning and/or (x or default): fork
        # general case: fork paths
        def rec(i, st0):
            for v, st1 in self.ev(e.values[i], st0):
                if i == len(e.values) - 1:
                    yield v, st1
                    continue
                c = self.truth(v, st1)
                stT, stF = st1.fork(), st1.fork()
                stT.pc.append(c); stT.path.append('T')
                stF.pc.append(z3.Not(c)); stF.path.append('F')
                if is_and:
                    if self.feasible(stF):
                        yield v, stF
                    if self.feasible(stT):
                        yield from rec(i + 1, stT)
                else:
                    if self.feasible(stT):
                        yield v, stT
                    if self.feasible(stF):
                        yield from rec(i + 1, stF)
        yield from rec(0, st)

    def ev_IfExp(self, e, st):
        for c, st1 in self.ev(e.test, st):
            cond = self.truth(c, st1)
            cs_ = z3.simplify(cond)
            if z3.is_true(cs_):
                yield from self.ev(e.body, st1)
                continue
            if z3.is_false(cs_):
                yield from self.ev(e.orelse, st1)
                continue
            if st1.spec or (not has_impure_call(e.body) and not has_impure_call(e.orelse)):
                ga, gb = st1.fork(), st1.fork()
                ga.pc.append(cond); gb.pc.append(z3.Not(cond))
                a = self.lift(self.ev1(e.body, ga)); b = self.lift(self.ev1(e.orelse, gb))
                m = self.merge_values(st1, cond, a, b)
                if m is not None:
                    yield m, st1
                    continue
            stT, stF = st1.fork(), st1.fork()
            stT.pc.append(cond); stT.path.append('T')
            stF.pc.append(z3.Not(cond)); stF.path.append('F')
            if self.feasible(stT):
                yield from self.ev(e.body, stT)
            if self.feasible(stF):
                yield from self.ev(e.orelse, stF)

    def merge_values(self, st, cond, a, b):
        if isinstance(a, SV) and isinstance(b, SV):
            if a.t == b.t:
                return SV(a.t, z3.If(cond, a.e, b.e))
            if a.t.kind in ('int', 'real', 'bool') and b.t.kind in ('int', 'real', 'bool'):
                t = join_types(a.t, b.t)
                return SV(t, z3.If(cond, pack(st, a, t), pack(st, b, t)))
        if isinstance(a, NoneV) and isinstance(b, NoneV):
            return a
        if isinstance(a, Ref) and isinstance(b, Ref):
            ca, cb = st.store[a.id], st.store[b.id]
            if isinstance(ca, ListC) and isinstance(cb, ListC):
                t = ca.t if ca.t == cb.t else Ty('list', [join_types(ca.t.args[0], cb.t.args[0])])
                S = sort_of(t)
                pa, pb = pack(st, a, t), pack(st, b, t)
                return new_list(st, t, z3.If(cond, S.arr(pa), S.arr(pb)), z3.If(cond, S.n(pa), S.n(pb)))
        if isinstance(a, OptV) and isinstance(b, NoneV):
            return OptV(z3.Or(z3.Not(cond), a.none), a.val, a.t)
        if isinstance(b, OptV) and isinstance(a, NoneV):
            return OptV(z3.Or(cond, b.none), b.val, b.t)
        if isinstance(a, OptV) and isinstance(b, OptV) and a.t == b.t:
            inner = self.merge_values(st, cond, self.lift(a.val), self.lift(b.val))
            if inner is not None:
                return OptV(z3.If(cond, a.none, b.none), inner, a.t)
        if isinstance(a, OptV) and isinstance(b, (SV, TupV)) and a.t.args[0] == type_of(b):
            inner = self.merge_values(st, cond, self.lift(a.val), b)
            if inner is not None:
                return OptV(z3.And(cond, a.none), inner, a.t)
        if isinstance(b, OptV) and isinstance(a, (SV, TupV)) and b.t.args[0] == type_of(a):
            inner = self.merge_values(st, cond, a, self.lift(b.val))
            if inner is not None:
                return OptV(z3.And(z3.Not(cond), b.none), inner, b.t)
        if isinstance(a, NoneV) and isinstance(b, (SV, TupV)):
            return OptV(cond, b, Ty('opt', [type_of(b)]))
        if isinstance(b, NoneV) and isinstance(a, (SV, TupV)):
            return OptV(z3.Not(cond), a, Ty('opt', [type_of(a)]))
        if isinstance(a, TupV) and isinstance(b, TupV) and len(a.items) == len(b.items):
            items = [self.merge_values(st, cond, self.lift(x), self.lift(y)) for x, y in zip(a.items, b.items)]
            if all(i is not None for i in items) and a.cls == b.cls:
                return TupV(items, a.cls)
        return None

    def ev_Compare(self, e, st):
        for l, st1 in self.ev(e.left, st):
            for rs, st2 in self.ev_list(e.comparators, st1):
                conds = []
                cur = l
                for op, r, rnode in zip(e.ops, rs, e.comparators):
                    c = self.compare(op, cur, r, st2, e)
                    if c is None:
                        # dispatch to __contains__ / __lt__ of an object: fork-capable
                        yield from self.compare_obj(op, cur, r, st2, e)
                        return
                    conds.append(c)
                    cur = r
                yield SV(BOOL, z3and(conds) if len(conds) > 1 else conds[0]), st2

    def compare(self, op, l, r, st, node):
        l, r = self.lift(l), self.lift(r)
        if isinstance(op, (ast.Is, ast.IsNot)):
            if isinstance(r, NoneV) or isinstance(l, NoneV):
                c = self.eq(l, r, st)
            elif isinstance(l, Ref) and isinstance(r, Ref):
                c = z3.BoolVal(l.id == r.id)
            elif isinstance(l, SV) and isinstance(r, SV) and l.t.kind == 'bool':
                c = self.eq(l, r, st)
            elif isinstance(l, ClassV) and isinstance(r, ClassV):
                c = z3.BoolVal(l.qual == r.qual)
            else:
                raise OutOfSubset('`is` on %r, %r' % (l, r))
            return c if isinstance(op, ast.Is) else z3.Not(c)
        if isinstance(op, (ast.Eq, ast.NotEq)) and not st.spec and ((isinstance(l, TupV) and l.cls == 'Vec') or (isinstance(r, TupV) and r.cls == 'Vec')):
            return None
        if isinstance(op, (ast.Eq, ast.NotEq)):
            if (isinstance(l, Ref) and isinstance(st.store[l.id], ObjC)) or (isinstance(r, Ref) and isinstance(st.store[r.id], ObjC)):
                return None
            c = self.eq(l, r, st)
            return c if isinstance(op, ast.Eq) else z3.Not(c)
        if isinstance(op, (ast.In, ast.NotIn)):
            c = self.contains(st, r, l, node)
            if c is None:
                return None
            return c if isinstance(op, ast.In) else z3.Not(c)
        if isinstance(l, Ref) and isinstance(st.store[l.id], ObjC):
            return None
        if isinstance(l, SV) and l.t.kind == 'tuple':
            l = unpack(st, l.e, l.t)
        if isinstance(l, TupV) and l.cls is not None:
            return None
        if isinstance(l, SV) and l.t.kind == 'tuple':
            l = unpack(st, l.e, l.t)
        if isinstance(r, SV) and r.t.kind == 'tuple':
            r = unpack(st, r.e, r.t)
        if (isinstance(l, TupV) and l.cls == 'Vec') or (isinstance(r, TupV) and r.cls == 'Vec'):
            return None
        if isinstance(l, TupV) and isinstance(r, TupV):
            return self.lex_compare(op, l.items, r.items, st, node)
        x, kx = self.num(l, st, node)
        y, ky = self.num(r, st, node)
        if kx != ky:
            x = z3.ToReal(x) if kx == 'int' else x
            y = z3.ToReal(y) if ky == 'int' else y
        if isinstance(op, ast.Lt):
            return x < y
        if isinstance(op, ast.LtE):
            return x <= y
        if isinstance(op, ast.Gt):
            return x > y
        if isinstance(op, ast.GtE):
            return x >= y
        raise OutOfSubset('comparison %s' % type(op).__name__)

    def lex_compare(self, op, a, b, st, node):
        strict = isinstance(op, (ast.Lt, ast.Gt))
        less = isinstance(op, (ast.Lt, ast.LtE))
        n = min(len(a), len(b))

        def rec(i):
            if i == n:
                if len(a) == len(b):
                    return z3.BoolVal(not strict)
                return z3.BoolVal((len(a) < len(b)) == less)
            lt = self.compare(ast.Lt() if less else ast.Gt(), a[i], b[i], st, node)
            eq = self.eq(a[i], b[i], st)
            return z3.Or(lt, z3.And(eq, rec(i + 1)))
        return rec(0)

    def ev_Lambda(self, e, st):
        yield FunV('lambda', e, dict(st.env), module=st.module), st

    def ev_JoinedStr(self, e, st):
        yield SV(STR, fresh_const('fstr', z3.StringSort())), st

    def ev_Attribute(self, e, st):
        for v, st1 in self.ev(e.value, st):
            yield from self.getattr(v, e.attr, st1, e)

    def ev_Subscript(self, e, st):
        for v, st1 in self.ev(e.value, st):
            if isinstance(e.slice, ast.Slice):
                yield from self.ev_slice(v, e.slice, st1, e)
                continue
            for i, st2 in self.ev(e.slice, st1):
                yield from self.getitem(v, i, st2, e)

    def getitem(self, v, i, st, node):
        v = self.lift(v)
        v = self.deopt(v, st, node.value if hasattr(node, 'value') else node)
        i = self.lift(i)
        if isinstance(i, OptV):
            i = self.deopt(i, st, getattr(node, 'slice', node))
        if isinstance(v, SV) and v.t.kind == 'map':
            try:
                k = pack(st, i, v.t.args[0])
            except TypeError as ex:
                raise OutOfSubset(str(ex))
            yield unpack(st, z3.Select(v.e, k), v.t.args[1]), st
            return
        if isinstance(v, SV) and v.t.kind in ('list', 'dict', 'set', 'tuple'):
            v = unpack(st, v.e, v.t)
        if isinstance(v, TupV) and isinstance(i, TupV) and len(i.items) == 2 and v.cls == 'Mat':
            for row, st_ in self.getitem(v, i.items[0], st, node):
                yield from self.getitem(row, i.items[1], st_, node)
            return
        if isinstance(v, TupV):
            if isinstance(i, SV) and i.t.kind in ('int', 'bool'):
                iv = z3.simplify(i.e)
                if z3.is_int_value(iv):
                    j = iv.as_long()
                    if -len(v.items) <= j < len(v.items):
                        yield v.items[j], st
                        return
                    self.safety(st, z3.BoolVal(False), 'tuple-index', node)
                    return
                # symbolic index into a homogeneous tuple
                n = len(v.items)
                j = z3.If(iv < 0, iv + n, iv)
                self.safety(st, z3.And(0 <= j, j < n), 'tuple-index', node)
                t = None
                for x in v.items:
                    t = join_types(t, type_of(self.lift(x)))
                res = pack(st, self.lift(v.items[-1]), t)
                for q in range(n - 2, -1, -1):
                    res = z3.If(j == q, pack(st, self.lift(v.items[q]), t), res)
                yield unpack(st, res, t), st
                return
            raise OutOfSubset('tuple index %r' % (i,))
        if isinstance(v, Ref):
            c = st.store[v.id]
            if isinstance(c, ListC):
                yield self.list_get(st, v, i, node), st
                return
            if isinstance(c, DictC):
                yield self.dict_get(st, v, i, node), st
                return
            if isinstance(c, ObjC):
                yield from self.call_method(v, '__getitem__', [i], {}, st, node)
                return
        raise OutOfSubset('subscript on %r' % (v,))

    def ev_slice(self, v, sl, st, node):
        v = self.deopt(self.lift(v), st, node)
        if sl.step is not None:
            raise OutOfSubset('slice step')
        los = [sl.lower] if sl.lower is not None else []
        his = [sl.upper] if sl.upper is not None else []
        for lv, st1 in self.ev_list(los, st):
            for hv, st2 in self.ev_list(his, st1):
                if isinstance(v, SV) and v.t.kind == 'tuple':
                    v = unpack(st2, v.e, v.t)
                if isinstance(v, TupV):
                    lo = lv[0] if lv else None
                    hi = hv[0] if hv else None

                    def conc(x):
                        if x is None:
                            return None
                        q = z3.simplify(self.num(x, st2)[0])
                        if not z3.is_int_value(q):
                            raise OutOfSubset('symbolic tuple slice')
                        return q.as_long()
                    yield TupV(v.items[conc(lo):conc(hi)], v.cls if v.cls in ('Vec',) else None), st2
                    continue
                if isinstance(v, Ref) and isinstance(st2.store[v.id], ListC):
                    c = st2.store[v.id]
                    lo = self.num(lv[0], st2)[0] if lv else z3.IntVal(0)
                    hi = self.num(hv[0], st2)[0] if hv else c.n

                    def clamp(x):
                        x = z3.If(x < 0, x + c.n, x)
                        return z3.If(x < 0, 0, z3.If(x > c.n, c.n, x))
                    lo, hi = clamp(lo), clamp(hi)
                    i = fresh_const('sl', z3.IntSort())
                    arr = z3.Lambda([i], z3.Select(c.arr, i + lo))
                    yield new_list(st2, c.t, arr, z3.If(hi > lo, hi - lo, 0)), st2
                    continue
                if isinstance(v, Ref) and isinstance(st2.store[v.id], ObjC):
                    raise OutOfSubset('slice of object')
                raise OutOfSubset('slice of %r' % (v,))

    # comprehensions ------------------------------------------------------------
    def ev_ListComp(self, e, st):
        yield from self.comprehension(e, st, 'list')

    def ev_GeneratorExp(self, e, st):
        yield from self.comprehension(e, st, 'list')

    def ev_SetComp(self, e, st):
        yield from self.comprehension(e, st, 'set')

    def ev_DictComp(self, e, st):
        raise OutOfSubset('dict comprehension')

    def iter_domain(self, it, st, node):
        """describe an iterable as (n, elem(i) -> value) for index-wise reasoning"""
        it = self.lift(it)
        it = self.deopt(it, st, node)
        if isinstance(it, SV) and it.t.kind in ('list', 'dict', 'set', 'tuple'):
            it = unpack(st, it.e, it.t)
        if isinstance(it, RangeV):
            lo, _ = self.num(it.start, st)
            hi, _ = self.num(it.stop, st)
            stp = z3.simplify(self.num(it.step, st)[0])
            if not (z3.is_int_value(stp) and stp.as_long() in (1, -1)):
                if z3.is_int_value(stp) and stp.as_long() > 1:
                    s = stp.as_long()
                    n = z3.If(hi > lo, (hi - lo + s - 1) / s, 0)
                    return n, (lambda i, s_=None: SV(INT, lo + s * i))
                raise OutOfSubset('range step')
            if stp.as_long() == 1:
                n = z3.If(hi > lo, hi - lo, 0)
                return n, (lambda i, s_=None: SV(INT, lo + i))
            n = z3.If(lo > hi, lo - hi, 0)
            return n, (lambda i, s_=None: SV(INT, lo - i))
        if isinstance(it, TupV):
            t = None
            for x in it.items:
                t = join_types(t, type_of(self.lift(x)))
            items = it.items

            def el(i, s_=None):
                iv = z3.simplify(i) if not isinstance(i, int) else z3.IntVal(i)
                if z3.is_int_value(iv):
                    return items[iv.as_long()]
                res = pack(st, self.lift(items[-1]), t)
                for q in range(len(items) - 2, -1, -1):
                    res = z3.If(iv == q, pack(st, self.lift(items[q]), t), res)
                return unpack(s_ or st, res, t)
            return z3.IntVal(len(items)), el
        if isinstance(it, Ref) and isinstance(st.store[it.id], ObjC):
            # user-defined iterable: inline its __iter__ (e.g. DataContainer.__iter__ returns self._data.__iter__())
            fi = self.find_method_for(st.store[it.id].cls, '__iter__')
            if fi is None:
                raise OutOfSubset('object is not iterable')
            outs = list(self.call_fn(fi, [it], {}, st, node))
            if len(outs) != 1:
                raise OutOfSubset('__iter__ forks')
            return self.iter_domain(outs[0][0], st, node)
        if isinstance(it, Ref):
            c = st.store[it.id]
            if isinstance(c, ListC):
                return c.n, (lambda i, s_=None: unpack(s_ or st, z3.Select(c.arr, i), c.t.args[0], parent=(it, i)))
            if isinstance(c, (DictC, SetC)):
                return c.n, (lambda i, s_=None: unpack(s_ or st, z3.Select(c.keys, i), c.t.args[0]))
        if isinstance(it, EnumV):
            n, el = self.iter_domain(it.inner, st, node)
            return n, (lambda i, s_=None: TupV([SV(INT, i + it.start if not isinstance(i, int) else z3.IntVal(i) + it.start), el(i, s_)]))
        if isinstance(it, ZipV):
            doms = [self.iter_domain(x, st, node) for x in it.inners]
            n = doms[0][0]
            for d in doms[1:]:
                n = z3.If(d[0] < n, d[0], n)
            return n, (lambda i, s_=None: TupV([d[1](i, s_) for d in doms]))
        if isinstance(it, ItemsV):
            c = st.store[it.ref.id]
            return c.n, (lambda i, s_=None: TupV([unpack(s_ or st, z3.Select(c.keys, i), c.t.args[0]),
                                         unpack(s_ or st, z3.Select(c.val, z3.Select(c.keys, i)), c.t.args[1],
                                                parent=(it.ref, z3.Select(c.keys, i)))]))
        if isinstance(it, ValuesV):
            c = st.store[it.ref.id]
            return c.n, (lambda i, s_=None: unpack(s_ or st, z3.Select(c.val, z3.Select(c.keys, i)), c.t.args[1],
                                          parent=(it.ref, z3.Select(c.keys, i))))
        raise OutOfSubset('iteration over %r' % (it,))

    def bind_target(self, tgt, val, st):
        """assign loop / comprehension targets (Name or nested tuples)"""
        if isinstance(tgt, ast.Name):
            st.env[tgt.id] = val
            st.record_write(('var', tgt.id))
            return
        if isinstance(tgt, (ast.Tuple, ast.List)):
            val = self.lift(val)
            if isinstance(val, SV) and val.t.kind == 'tuple':
                val = unpack(st, val.e, val.t)
            if isinstance(val, TupV):
                if len(val.items) != len(tgt.elts):
                    self.safety(st, z3.BoolVal(False), 'unpack-arity', tgt)
                    raise PathEnd()
                for t, v in zip(tgt.elts, val.items):
                    self.bind_target(t, v, st)
                return
            if isinstance(val, Ref) and isinstance(st.store[val.id], ListC):
                c = st.store[val.id]
                self.safety(st, c.n == len(tgt.elts), 'unpack-arity', tgt)
                for i, t in enumerate(tgt.elts):
                    self.bind_target(t, unpack(st, z3.Select(c.arr, i), c.t.args[0], parent=(val, z3.IntVal(i))), st)
                return
            raise OutOfSubset('unpacking %r' % (val,))
        raise OutOfSubset('target %s' % type(tgt).__name__)

    def comprehension(self, e, st, kind):
        """pure map/filter comprehensions with one generator -> lambda array + quantified facts"""
        if len(e.generators) != 1:
            raise OutOfSubset('nested comprehension')
        g = e.generators[0]
        impure = has_impure_call(e.elt) or any(has_impure_call(c) for c in g.ifs)
        if impure:
            # statically short iterables are unrolled exactly (evaluation order and effects preserved)
            static = None
            if isinstance(g.iter, (ast.Tuple, ast.List)):
                static = len(g.iter.elts)
            elif not has_impure_call(g.iter):
                try:
                    probe = st.fork()
                    pv = self.ev1(g.iter, probe)
                    pn = z3.simplify(self.iter_domain(pv, probe, g.iter)[0])
                    if z3.is_int_value(pn) and pn.as_long() <= 16:
                        static = pn.as_long()
                except (OutOfSubset, PathEnd):
                    static = None
            if static is None or kind != 'list' or g.ifs:
                yield from self.comprehension_as_loop(e, st, kind)
                return
            for itv, st1 in self.ev(g.iter, st):
                n, el = self.iter_domain(itv, st1, g.iter)

                def rec(c, acc, stc):
                    if c == static:
                        yield list(acc), stc
                        return
                    self.bind_target(g.target, el(z3.IntVal(c)), stc)
                    for v, st2 in self.ev(e.elt, stc):
                        yield from rec(c + 1, acc + [self.lift(v)], st2)
                for vals, st2 in rec(0, [], st1):
                    if isinstance(e, ast.GeneratorExp) or not vals:
                        yield (TupV(vals) if vals else EmptyV('list')), st2
                    else:
                        yield self.make_list(st2, vals), st2
            return
        for itv, st1 in self.ev(g.iter, st):
            n, el = self.iter_domain(itv, st1, g.iter)
            nn = z3.simplify(n)
            if z3.is_int_value(nn) and nn.as_long() <= 16 and kind == 'list':
                # statically known short sequence: evaluate elementwise (no lambda arrays)
                vals = []
                for c in range(nn.as_long()):
                    sub = st1.fork()
                    self.bind_target(g.target, el(z3.IntVal(c)), sub)
                    if g.ifs:
                        conds = [z3.simplify(self.truth(self.ev1(cc, sub), sub)) for cc in g.ifs]
                        if all(z3.is_true(x) for x in conds):
                            pass
                        elif any(z3.is_false(x) for x in conds):
                            continue
                        else:
                            raise OutOfSubset('filtered comprehension with symbolic condition')
                    vals.append(self.lift(self.ev1(e.elt, sub)))
                if isinstance(e, ast.GeneratorExp) or not vals:
                    yield (TupV(vals) if vals else EmptyV('list')), st1
                else:
                    yield self.make_list(st1, vals), st1
                continue
            i = fresh_const('cmp', z3.IntSort())
            sub = st1.fork()
            sub.spec = True if st1.spec else sub.spec
            self.bind_target(g.target, el(i), sub)
            sub.pc.append(z3.And(0 <= i, i < n))
            # evaluate body obligations under a universally quantified index
            v = self.lift(self.ev1(e.elt, sub))
            conds = [self.truth(self.ev1(c, sub), sub) for c in g.ifs]
            t = type_of(v)
            if kind == 'list' and not conds:
                pv = pack(sub, v, t)
                arr = z3.Lambda([i], pv)
                yield new_list(st1, Ty('list', [t]), arr, n), st1
            elif kind == 'set' or conds:
                raise OutOfSubset('filtered / set comprehension (needs loop form)')
            else:
                raise OutOfSubset('comprehension kind')

    def comprehension_as_loop(self, e, st, kind):
        """comprehension whose body has effects (contract calls): desugared into
               acc<k> = [] ; for <target> in <iter>: [if c:] acc<k>.append(<elt>)
        and cut by the loop contract registered under the comprehension's ordinal k"""
        ordinals = self.loop_ordinals_stack[-1] if self.loop_ordinals_stack else {}
        k = ordinals.get(id(e))
        if k is None:
            raise OutOfSubset('comprehension with effects (no ordinal)')
        g = e.generators[0]
        acc = 'acc_%s' % k
        app = ast.Expr(value=ast.Call(func=ast.Attribute(value=ast.Name(id=acc, ctx=ast.Load()), attr='append', ctx=ast.Load()),
                                      args=[e.elt], keywords=[]))
        body = [app]
        for c in reversed(g.ifs):
            body = [ast.If(test=c, body=body, orelse=[])]
        loop = ast.For(target=g.target, iter=g.iter, body=body, orelse=[])
        init = ast.Assign(targets=[ast.Name(id=acc, ctx=ast.Store())], value=ast.List(elts=[], ctx=ast.Load()))
        mod = ast.Module(body=[init, loop], type_ignores=[])
        ast.fix_missing_locations(mod)
        for n in ast.walk(mod):
            if not hasattr(n, 'lineno'):
                n.lineno = getattr(e, 'lineno', 0)
        ordinals[id(loop)] = k
        for o in self.ex_block(mod.body, st):
            if o.kind == 'normal':
                yield o.st.env[acc], o.st
            elif o.kind == 'raise':
                self.pending_raises[-1].append(o)
            else:
                raise OutOfSubset('control flow escaping a comprehension')


class EnumV:
    def __init__(self, inner, start):
        self.inner, self.start = inner, start
    t = Ty('iter')


class ZipV:
    def __init__(self, inners):
        self.inners = inners
    t = Ty('iter')


class ItemsV:
    def __init__(self, ref):
        self.ref = ref
    t = Ty('iter')


class ValuesV:
    def __init__(self, ref):
        self.ref = ref
    t = Ty('iter')


class PathEnd(Exception):
    """the current path ends here (definite failure already recorded as an obligation)"""
