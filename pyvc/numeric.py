"""pyvc.numeric -- the real-arithmetic layer: Vec values (fixed-size real vectors), numpy/math facade
(trusted base A2: floats are mathematical reals; A7 numpy facade; A10 sqrt / trig axioms)."""
import ast
import z3
from .ty import *
from .state import *
from .builtins import external, BuiltinMixin
from .evalx import PathEnd, EvalMixin
from .execs import Outcome
from .spec import REG

VEC_QUAL = 'mouette.geometry.vector.Vec'

sqrt_f = z3.Function('sqrt', z3.RealSort(), z3.RealSort())
atan2_f = z3.Function('atan2', z3.RealSort(), z3.RealSort(), z3.RealSort())
sin_f = z3.Function('sin', z3.RealSort(), z3.RealSort())
cos_f = z3.Function('cos', z3.RealSort(), z3.RealSort())
cbrt_f = z3.Function('cbrt', z3.RealSort(), z3.RealSort())
PI = z3.Real('pi')


def is_vec(v):
    return isinstance(v, TupV) and v.cls == 'Vec'


def mkvec(items):
    return TupV(list(items), 'Vec')


def real_of(eng, v, st, node=None):
    x, k = eng.num(v, st, node)
    return z3.ToReal(x) if k == 'int' else x


def vec_items(eng, v, st):
    return [real_of(eng, x, st) for x in v.items]


def as_vec(eng, v, st, node=None):
    """coerce lists / tuples / Vec of statically known length to a Vec value"""
    v = eng.lift(v)
    if isinstance(v, OptV):
        v = eng.deopt(v, st, node)
    if isinstance(v, SV) and v.t.kind == 'tuple':
        v = unpack(st, v.e, v.t)
    if is_vec(v):
        return v
    if isinstance(v, TupV):
        if all(is_vec(eng.lift(x)) or isinstance(eng.lift(x), TupV) for x in v.items) and v.items:
            return TupV([as_vec(eng, x, st, node) for x in v.items], 'Mat')
        return mkvec([SV(REAL, real_of(eng, x, st, node)) for x in v.items])
    if isinstance(v, Ref) and isinstance(st.store[v.id], ListC):
        c = st.store[v.id]
        n = z3.simplify(c.n)
        if z3.is_int_value(n):
            els = [unpack(st, z3.Select(c.arr, i), c.t.args[0]) for i in range(n.as_long())]
            return as_vec(eng, TupV(els), st, node)
    raise OutOfSubset('vector of unknown length: %r' % (v,))


def sqrt_term(eng, st, x, node, check=True):
    """A10: sqrt(x) for x >= 0 is the non-negative root"""
    eng.externals_used.add('math.sqrt (A10: r >= 0 and r*r == x for x >= 0)')
    if check:
        eng.safety(st, x >= 0, 'sqrt-domain', node)
    xs = z3.simplify(x)
    if z3.is_rational_value(xs):
        # exact roots of perfect squares
        num, den = xs.numerator_as_long(), xs.denominator_as_long()
        import math
        if num >= 0:
            rn, rd = math.isqrt(num), math.isqrt(den)
            if rn * rn == num and rd * rd == den:
                return z3.RealVal(rn) / z3.RealVal(rd)
    # a fresh real constrained by r >= 0, r*r == x: keeps the query in pure nonlinear real arithmetic
    # (uniqueness of the non-negative root makes this equivalent to a function symbol)
    key = x.sexpr()
    cache = st.env.get('__sqrt_cache')
    if cache is None or not isinstance(cache, dict):
        cache = {}
    if key in cache:
        return cache[key]
    r = fresh_const('sqrt', z3.RealSort())
    st.assume(z3.And(r >= 0, r * r == x))
    cache = dict(cache)
    cache[key] = r
    st.env['__sqrt_cache'] = cache
    return r


class NumericMixin:
    """overrides hooks of EvalMixin / CallMixin for Vec values"""

    def vec_binop(self, op, l, r, st, node):
        lv, rv = is_vec(l) or (isinstance(l, TupV) and l.cls == 'Mat'), is_vec(r) or (isinstance(r, TupV) and r.cls == 'Mat')
        if not (lv or rv):
            return None
        if lv and rv:
            if len(l.items) != len(r.items):
                self.safety(st, z3.BoolVal(False), 'vector-shape', node)
                raise PathEnd()
            return TupV([self.binop(op, a, b, st, node) for a, b in zip(l.items, r.items)], l.cls)
        if lv:
            if isinstance(r, (TupV, Ref)) and not isinstance(op, (ast.Mult,)):
                r = as_vec(self, r, st, node)
                return self.vec_binop(op, l, r, st, node)
            return TupV([self.binop(op, a, r, st, node) for a in l.items], l.cls)
        if isinstance(l, (TupV, Ref)):
            l = as_vec(self, l, st, node)
            return self.vec_binop(op, l, r, st, node)
        return TupV([self.binop(op, l, b, st, node) for b in r.items], r.cls)

    def ev_UnaryOp(self, e, st):
        for v, st1 in self.ev(e.operand, st):
            v = self.lift(v)
            if is_vec(v) and isinstance(e.op, ast.USub):
                yield mkvec([SV(REAL, -real_of(self, x, st1)) for x in v.items]), st1
            else:
                if isinstance(e.op, ast.Not):
                    yield SV(BOOL, z3.Not(self.truth(v, st1))), st1
                elif isinstance(e.op, ast.USub):
                    x, k = self.num(v, st1, e)
                    yield SV(INT if k == 'int' else REAL, -x), st1
                elif isinstance(e.op, ast.UAdd):
                    yield v, st1
                else:
                    raise OutOfSubset('unary %s' % type(e.op).__name__)


# ----------------------------------------------------------------------------- Vec construction

def construct_vec(eng, args, kwargs, st, node):
    if len(args) == 1:
        yield as_vec(eng, args[0], st, node), st
    else:
        yield mkvec([SV(REAL, real_of(eng, a, st, node)) for a in args]), st


# ----------------------------------------------------------------------------- numpy facade

@external('numpy.dot')
def np_dot(eng, args, kwargs, st, node):
    a, b = as_vec(eng, args[0], st, node), as_vec(eng, args[1], st, node)
    if len(a.items) != len(b.items):
        eng.safety(st, z3.BoolVal(False), 'vector-shape', node)
        raise PathEnd()
    xs, ys = vec_items(eng, a, st), vec_items(eng, b, st)
    s = z3.RealVal(0)
    for x, y in zip(xs, ys):
        s = s + x * y
    yield SV(REAL, s), st


@external('numpy.cross')
def np_cross(eng, args, kwargs, st, node):
    a, b = vec_items(eng, as_vec(eng, args[0], st, node), st), vec_items(eng, as_vec(eng, args[1], st, node), st)
    if len(a) != 3 or len(b) != 3:
        raise OutOfSubset('np.cross of non-3D')
    yield mkvec([SV(REAL, a[1] * b[2] - a[2] * b[1]), SV(REAL, a[2] * b[0] - a[0] * b[2]), SV(REAL, a[0] * b[1] - a[1] * b[0])]), st


def _sqrt(eng, args, kwargs, st, node):
    v = eng.lift(args[0])
    if is_vec(v):
        yield mkvec([SV(REAL, sqrt_term(eng, st, real_of(eng, x, st), node)) for x in v.items]), st
    else:
        yield SV(REAL, sqrt_term(eng, st, real_of(eng, v, st, node), node)), st


external('numpy.sqrt')(_sqrt)
external('math.sqrt')(_sqrt)


@external('numpy.cbrt')
def np_cbrt(eng, args, kwargs, st, node):
    x = real_of(eng, args[0], st, node)
    r = cbrt_f(x)
    eng.externals_used.add('numpy.cbrt (A10: r*r*r == x, sign preserved)')
    st.assume(z3.And(r * r * r == x, (r >= 0) == (x >= 0)))
    yield SV(REAL, r), st


def _abs(eng, args, kwargs, st, node):
    v = eng.lift(args[0])
    if is_vec(v):
        out = []
        for x in v.items:
            r = real_of(eng, x, st)
            out.append(SV(REAL, z3.If(r >= 0, r, -r)))
        yield mkvec(out), st
    else:
        x, k = eng.num(v, st, node)
        yield SV(INT if k == 'int' else REAL, z3.If(x >= 0, x, -x)), st


external('numpy.abs')(_abs)
external('numpy.absolute')(_abs)


@external('numpy.sum')
def np_sum(eng, args, kwargs, st, node):
    v = as_vec(eng, args[0], st, node)
    s = z3.RealVal(0)
    for x in vec_items(eng, v, st):
        s = s + x
    yield SV(REAL, s), st


def _npminmax(is_max):
    def f(eng, args, kwargs, st, node):
        v = as_vec(eng, args[0], st, node)
        if isinstance(v, TupV) and v.cls == 'Mat':
            ax = kwargs.get('axis')
            if ax is None or z3.simplify(eng.num(ax, st)[0]).as_long() != 0:
                raise OutOfSubset('np.min/max of a matrix without axis=0')
            cols = len(v.items[0].items)
            out = []
            for j in range(cols):
                cur = real_of(eng, v.items[0].items[j], st)
                for row in v.items[1:]:
                    x = real_of(eng, row.items[j], st)
                    cur = z3.If(x > cur, x, cur) if is_max else z3.If(x < cur, x, cur)
                out.append(SV(REAL, cur))
            yield mkvec(out), st
            return
        xs = vec_items(eng, v, st)
        if not xs:
            raise OutOfSubset('min/max of empty vector')
        cur = xs[0]
        for x in xs[1:]:
            cur = z3.If(x > cur, x, cur) if is_max else z3.If(x < cur, x, cur)
        yield SV(REAL, cur), st
    return f


external('numpy.max')(_npminmax(True))
external('numpy.amax')(_npminmax(True))
external('numpy.min')(_npminmax(False))
external('numpy.amin')(_npminmax(False))


def _elementwise2(fn):
    def f(eng, args, kwargs, st, node):
        a, b = eng.lift(args[0]), eng.lift(args[1])
        if not is_vec(a) and isinstance(a, (TupV, Ref)):
            a = as_vec(eng, a, st, node)
        if not is_vec(b) and isinstance(b, (TupV, Ref)):
            b = as_vec(eng, b, st, node)
        if is_vec(a) and is_vec(b):
            if len(a.items) != len(b.items):
                eng.safety(st, z3.BoolVal(False), 'vector-shape', node)
                raise PathEnd()
            yield mkvec([SV(REAL, fn(real_of(eng, x, st), real_of(eng, y, st))) for x, y in zip(a.items, b.items)]), st
        elif is_vec(a):
            y = real_of(eng, b, st, node)
            yield mkvec([SV(REAL, fn(real_of(eng, x, st), y)) for x in a.items]), st
        elif is_vec(b):
            x = real_of(eng, a, st, node)
            yield mkvec([SV(REAL, fn(x, real_of(eng, y, st))) for y in b.items]), st
        else:
            yield SV(REAL, fn(real_of(eng, a, st, node), real_of(eng, b, st, node))), st
    return f


external('numpy.minimum')(_elementwise2(lambda x, y: z3.If(x < y, x, y)))
external('numpy.maximum')(_elementwise2(lambda x, y: z3.If(x > y, x, y)))


@external('numpy.array')
def np_array(eng, args, kwargs, st, node):
    yield as_vec(eng, args[0], st, node), st


external('numpy.asarray')(np_array)


@external('numpy.zeros')
def np_zeros(eng, args, kwargs, st, node):
    n = z3.simplify(eng.num(args[0], st, node)[0])
    if not z3.is_int_value(n):
        # 1-D array of symbolic length: a list of reals, all zero
        eng.safety(st, n >= 0, 'zeros-count', node)
        yield new_list(st, Ty('list', [REAL]), z3.K(z3.IntSort(), z3.RealVal(0)), n), st
        return
    yield mkvec([mk_real(0)] * n.as_long()), st


@external('numpy.seterr')
def np_seterr(eng, args, kwargs, st, node):
    """numpy's floating-point error configuration is process-global state: ghost variable np_errstate"""
    allv = kwargs.get('all')
    if allv is None or not isinstance(allv, StrConst):
        raise OutOfSubset('np.seterr form')
    old = st.env.get('np_errstate')
    st.env['np_errstate'] = SV(STR, z3.StringVal(allv.s))
    st.record_write(('var', 'np_errstate'))
    yield NONEV, st


# ----------------------------------------------------------------------------- math

@external('math.atan2')
def m_atan2(eng, args, kwargs, st, node):
    """A10: atan2(s, c) in (-pi, pi];  >= 0 iff s >= 0 (for (s,c) != (0,0)); antisymmetric in s away from the cut;
    atan2(0, c>0) == 0; atan2(s, c) <= pi"""
    s, c = real_of(eng, args[0], st, node), real_of(eng, args[1], st, node)
    eng.externals_used.add('math.atan2 (A10 range / sign axioms)')
    r = atan2_f(s, c)
    st.assume(z3.And(r > -PI, r <= PI, PI > 3, PI < 4))
    st.assume(z3.Implies(s >= 0, r >= 0))
    st.assume(z3.Implies(s < 0, r < 0))
    st.assume(z3.Implies(z3.And(s == 0, c >= 0), r == 0))
    st.assume(z3.Implies(z3.And(s == 0, c < 0), r == PI))
    st.assume(z3.Implies(z3.Not(z3.And(s == 0, c <= 0)), atan2_f(-s, c) == -r))
    yield SV(REAL, r), st


external('numpy.arctan2')(m_atan2)


def _trig_pair(eng, st, x):
    """A10: (cos x, sin x) as a pair of reals with c*c + s*s == 1 (cached per argument term)"""
    eng.externals_used.add('math.sin/cos (A10: sin^2+cos^2=1, range [-1,1])')
    key = 'trig:' + z3.simplify(x).sexpr()
    cache = st.env.get('__sqrt_cache')
    if not isinstance(cache, dict):
        cache = {}
    if key in cache:
        return cache[key]
    xs = z3.simplify(x)
    if z3.is_rational_value(xs) and xs.numerator_as_long() == 0:
        pair = (z3.RealVal(1), z3.RealVal(0))
    else:
        c, s_ = fresh_const('cos', z3.RealSort()), fresh_const('sin', z3.RealSort())
        st.assume(z3.And(c * c + s_ * s_ == 1, c <= 1, c >= -1, s_ <= 1, s_ >= -1))
        pair = (c, s_)
    cache = dict(cache)
    cache[key] = pair
    st.env['__sqrt_cache'] = cache
    return pair


@external('math.cos')
def m_cos(eng, args, kwargs, st, node):
    yield SV(REAL, _trig_pair(eng, st, real_of(eng, args[0], st, node))[0]), st


@external('math.sin')
def m_sin(eng, args, kwargs, st, node):
    yield SV(REAL, _trig_pair(eng, st, real_of(eng, args[0], st, node))[1]), st


external('numpy.cos')(m_cos)
external('numpy.sin')(m_sin)


def _np_allany(is_all):
    def f(eng, args, kwargs, st, node):
        v = eng.lift(args[0])
        if isinstance(v, TupV):
            conds = [eng.truth(x, st) for x in v.items]
            yield SV(BOOL, (z3.And(conds) if is_all else z3.Or(conds)) if conds else z3.BoolVal(is_all)), st
            return
        if isinstance(v, Ref) and isinstance(st.store[v.id], ListC):
            c = st.store[v.id]
            body = lambda i: eng.truth(unpack(st, z3.Select(c.arr, i), c.t.args[0]), st)
            yield SV(BOOL, q_index(c.n, body, kind='all' if is_all else 'any')), st
            return
        raise OutOfSubset('np.all/any of %r' % (v,))
    return f


external('numpy.all')(_np_allany(True))
external('numpy.any')(_np_allany(False))


@external('numpy.full')
def np_full(eng, args, kwargs, st, node):
    n = z3.simplify(eng.num(args[0], st, node)[0])
    if not z3.is_int_value(n):
        raise OutOfSubset('np.full(symbolic)')
    yield mkvec([SV(REAL, real_of(eng, args[1], st, node))] * n.as_long()), st


@external('numpy.ones')
def np_ones(eng, args, kwargs, st, node):
    n = z3.simplify(eng.num(args[0], st, node)[0])
    if not z3.is_int_value(n):
        # 1-D array of symbolic length: a list of reals, all one
        eng.safety(st, n >= 0, 'ones-count', node)
        yield new_list(st, Ty('list', [REAL]), z3.K(z3.IntSort(), z3.RealVal(1)), n), st
        return
    yield mkvec([mk_real(1)] * n.as_long()), st


@external('numpy.linspace')
def np_linspace(eng, args, kwargs, st, node):
    """A7: linspace(a, b, n) has n points, starts at a, ends at b (n >= 2), is monotone and stays in [min(a,b), max(a,b)];
    interior points are x_i = a + i*(b-a)/(n-1)"""
    a, b = real_of(eng, args[0], st, node), real_of(eng, args[1], st, node)
    n = eng.num(args[2], st, node)[0] if len(args) > 2 else z3.IntVal(50)
    eng.safety(st, n >= 0, 'linspace-count', node)
    t = Ty('list', [REAL])
    r = new_list(st, t, name='linspace')
    c = st.store[r.id]
    st.assume(c.n == n)
    st.assume(q_index(c.n, lambda i: z3.Select(c.arr, i) * z3.ToReal(n - 1) == a * z3.ToReal(n - 1) + z3.ToReal(i) * (b - a), name='ls'))
    st.assume(z3.Implies(n == 1, z3.Select(c.arr, 0) == a))
    lo, hi = z3.If(a <= b, a, b), z3.If(a <= b, b, a)
    st.assume(q_index(c.n, lambda i: z3.And(lo <= z3.Select(c.arr, i), z3.Select(c.arr, i) <= hi), name='lb'))
    yield r, st


@external('cmath.rect')
def c_rect(eng, args, kwargs, st, node):
    """A10: rect(r, phi) = r*(cos phi + i sin phi); modelled as the record (real, imag)"""
    r, phi = real_of(eng, args[0], st, node), real_of(eng, args[1], st, node)
    c, s_ = _trig_pair(eng, st, phi)
    yield TupV([SV(REAL, r * c), SV(REAL, r * s_)], 'Complex'), st
