"""pyvc.spec -- the sidecar contract DSL.

Sidecar files under /verif/specs are ordinary Python modules that *register* contracts;
they never import or execute the repository.  All formulas are strings holding Python
expressions; they are parsed with `ast` and translated by the same evaluator as the
code under verification (plus old(), result, quantifiers, ghost maps).
"""
import ast
from . import ty


class SpecError(Exception):
    pass


class ClassSpec:
    def __init__(self, qual, fields, ghost, bases=(), value=False):
        self.qual = qual
        self.name = qual.split('.')[-1]
        self.fields = fields          # name -> Ty
        self.ghost = ghost            # name -> Ty
        self.bases = bases
        self.value = value

    def all_fields(self):
        d = dict(self.fields)
        d.update(self.ghost)
        return d


class LoopSpec:
    def __init__(self, invariant=(), decreases=None, ghost_end=(), unroll=None, label=None, hide=None):
        self.invariant = [parse_expr(s) for s in invariant]
        self.invariant_src = list(invariant)
        self.decreases = parse_expr(decreases) if decreases else None
        self.decreases_src = decreases
        self.ghost_end = [parse_stmts(s) for s in ghost_end]
        self.unroll = unroll
        self.label = label
        self.hide = list(hide or [])     # indices of `requires` clauses not needed by this loop's preservation step (hidden from the solver first)


class FnSpec:
    def __init__(self, qual, params=None, returns=None, requires=(), ensures=(), raises=None,
                 modifies=(), loops=None, ghost_entry=(), ghost_exit=(), inline=False,
                 pure=False, lets=None, on_raise=(), properties=(), trusted=False, note=None,
                 locals=None, decreases=None, opaque_result=False, call_inline=False, cases=None, lemmas=(), ghost_params=None, region=None, of=None):
        self.qual = qual
        self.params = {k: ty.parse_type(v) for k, v in (params or {}).items()}
        self.returns = ty.parse_type(returns) if returns else None
        self.requires = [parse_expr(s) for s in requires]
        self.requires_src = list(requires)
        self.ensures = [parse_expr(s) for s in ensures]
        self.ensures_src = list(ensures)
        self.raises = {k: parse_expr(v) for k, v in (raises or {}).items()}
        self.raises_src = dict(raises or {})
        self.modifies = list(modifies)
        self.loops = loops or {}
        self.ghost_entry = [parse_stmts(s) for s in ghost_entry]
        self.ghost_exit = [parse_stmts(s) for s in ghost_exit]
        self.inline = inline
        self.cases = cases or [{}]          # parameter bindings to Python constants: one verification per case
        self.lemmas = list(lemmas)
        self.region = region      # (start, end): verify only the top-level statements from the first one whose source starts with `start` to the one starting with `end`
        self.of = of              # the real function a region contract belongs to
        self.ghost_params = {k: ty.parse_type(v) for k, v in (ghost_params or {}).items()}   # logical (universally quantified) parameters          # names of proved lemmas assumed in this function's queries
        self.call_inline = call_inline     # verified against its contract, but inlined at call sites (dimension-generic helpers)
        self.pure = pure
        self.lets = lets or {}
        self.on_raise = [parse_expr(s) for s in on_raise]
        self.properties = list(properties)   # property ids this function serves
        self.trusted = trusted               # contract assumed, body not verified (external)
        self.note = note
        self.locals = {k: ty.parse_type(v) for k, v in (locals or {}).items()}


class Registry:
    def __init__(self):
        self.classes = {}      # qual -> ClassSpec
        self.class_by_name = {}
        self.fns = {}          # qual -> FnSpec
        self.predicates = {}   # name -> (params, expr ast, src)
        self.axioms = []       # (name, expr ast, src)  -- assumed facts (listed in trusted base)
        self.lemmas = []       # (name, hyps, goal)     -- proved once, then usable
        self.sorts = set()
        self.ufuncs = {}       # name -> (argtypes, rettype)
        self.defs = {}         # name -> (params, body ast, src): defined spec functions
        self.notes = []

    def cls(self, name):
        if name in self.classes:
            return self.classes[name]
        return self.class_by_name.get(name)


REG = Registry()


def parse_expr(s):
    s = ' '.join(line.strip() for line in s.strip().splitlines())
    try:
        return ast.parse(s, mode='eval').body
    except SyntaxError as e:
        raise SyntaxError('in spec expression %r: %s' % (s, e))


def parse_stmts(s):
    import textwrap
    return ast.parse(textwrap.dedent(s)).body


def sort(name):
    ty.declare_sort(name)
    REG.sorts.add(name)


def klass(qual, fields=None, ghost=None, bases=(), value=False, real=None):
    """`real`: the repository class whose methods this spec class uses (several spec classes may type
    the same generic real class differently, e.g. DataContainer of vertices / of faces)"""
    name = qual.split('.')[-1]
    if value:
        ty.declare_value_class(name, fields)
    else:
        ty.declare_obj(name)
    prev = REG.classes.get(qual) or REG.class_by_name.get(name)
    if prev is not None:
        # a second declaration may only extend the first (same real class, superset of the fields with the same types):
        # two sidecar modules loaded together must not silently give one class two meanings
        newf = {k: ty.parse_type(v) for k, v in dict(fields or {}, **(ghost or {})).items()}
        oldf = prev.all_fields()
        if (real or qual) != prev.real or any(k not in newf or repr(newf[k]) != repr(t) for k, t in oldf.items()):
            raise SpecError('specification class %s declared twice with incompatible fields (%s vs %s)' % (name, sorted(oldf), sorted(newf)))
    c = ClassSpec(qual, {}, {}, bases, value)
    REG.classes[qual] = c
    REG.class_by_name[name] = c
    c.real = real or qual
    c.fields = {k: ty.parse_type(v) for k, v in (fields or {}).items()}
    c.ghost = {k: ty.parse_type(v) for k, v in (ghost or {}).items()}
    return c


def predicate(name, params, body):
    """macro-expanded spec function: params is 'a: T, b: U' (types informative)"""
    names = [p.split(':')[0].strip() for p in params.split(',') if p.strip()]
    REG.predicates[name] = (names, parse_expr(body), body)


def ufunc(name, argtypes, rettype):
    """uninterpreted spec function"""
    REG.ufuncs[name] = ([ty.parse_type(a) for a in argtypes], ty.parse_type(rettype))


def axiom(name, body, vars=None):
    """assumed fact about uninterpreted spec functions / externals: listed in trusted base.
    It is added to a query only when all uninterpreted functions it mentions occur in the proof."""
    e = parse_expr(body)
    uses = {n.func.id for n in ast.walk(e) if isinstance(n, ast.Call) and isinstance(n.func, ast.Name) and n.func.id in REG.ufuncs}
    REG.axioms.append((name, {k: ty.parse_type(v) for k, v in (vars or {}).items()}, e, body, uses))


def define(name, params, argtypes, rettype, body):
    """a spec function with a body.  In queries it is an *uninterpreted* symbol plus its defining equation
    (triggered on applications), so that quantified reasoning is E-matching over applications while arithmetic
    facts stay ground; lemmas about it are proved once with the definition expanded."""
    names = [p.strip() for p in params.split(',') if p.strip()]
    REG.ufuncs[name] = ([ty.parse_type(a) for a in argtypes], ty.parse_type(rettype))
    REG.defs[name] = (names, parse_expr(body), body)


def lemma(name, body, vars=None, hyps=()):
    """a mathematical fact proved once per run (its own obligation) and then available to functions that
    list it in `lemmas=`; unlike an axiom it adds nothing to the trusted base"""
    REG.lemmas.append((name, {k: ty.parse_type(v) for k, v in (vars or {}).items()}, parse_expr(body), body))


def fn(qual, **kw):
    f = FnSpec(qual, **kw)
    REG.fns[qual] = f
    return f


def loop(invariant=(), decreases=None, ghost_end=(), unroll=None, label=None, hide=None):
    return LoopSpec(invariant, decreases, ghost_end, unroll, label, hide)
