"""pyvc.ty -- types, SMT sorts and symbolic values.

Every Python value handled by the symbolic executor carries a *type* (Ty).  Types
come from the sidecar contracts (parameter / field declarations) or are inferred from
literals.  Each type has an SMT sort; mutable containers additionally live in the
symbolic *store* (see engine.State) so that Python reference semantics (aliasing)
is modelled exactly for everything that is reachable from a variable or a field.
"""
import z3

# ----------------------------------------------------------------------------- types

class Ty:
    __slots__ = ('kind', 'args', 'name')

    def __init__(self, kind, args=(), name=None):
        self.kind = kind      # int bool real str none sort list dict set tuple opt obj map any
        self.args = tuple(args)
        self.name = name      # for sort / obj

    def __eq__(self, o):
        return isinstance(o, Ty) and (self.kind, self.args, self.name) == (o.kind, o.args, o.name)

    def __hash__(self):
        return hash((self.kind, self.args, self.name))

    def __repr__(self):
        if self.kind in ('sort', 'obj'):
            return self.name
        if self.args:
            return '%s[%s]' % (self.kind, ','.join(map(repr, self.args)))
        return self.kind

    @property
    def is_container(self):
        return self.kind in ('list', 'dict', 'set')


INT = Ty('int'); BOOL = Ty('bool'); REAL = Ty('real'); STR = Ty('str'); NONE = Ty('none'); ANY = Ty('any')

_SORT_NAMES = set()
_VALUE_CLASSES = {}     # class name -> named tuple type
VALUE_FIELDS = {}       # class name -> [field names]


def declare_value_class(name, fields):
    """dataclass-like immutable record: modelled as a named tuple datatype"""
    t = Ty('tuple', [parse_type(v) for v in fields.values()], name)
    _VALUE_CLASSES[name] = t
    VALUE_FIELDS[name] = list(fields)
    return t

_OBJ_NAMES = set()


def declare_sort(name):
    _SORT_NAMES.add(name)


def declare_obj(name):
    _OBJ_NAMES.add(name)


def parse_type(s):
    """'dict[Elt,list[int]]' -> Ty"""
    if isinstance(s, Ty):
        return s
    s = s.strip()
    toks = []
    cur = ''
    for ch in s:
        if ch in '[],':
            if cur.strip():
                toks.append(cur.strip())
            toks.append(ch)
            cur = ''
        else:
            cur += ch
    if cur.strip():
        toks.append(cur.strip())
    pos = [0]

    def p():
        name = toks[pos[0]]; pos[0] += 1
        args = []
        if pos[0] < len(toks) and toks[pos[0]] == '[':
            pos[0] += 1
            while True:
                args.append(p())
                if toks[pos[0]] == ',':
                    pos[0] += 1
                    continue
                assert toks[pos[0]] == ']', s
                pos[0] += 1
                break
        return mk(name, args)

    def mk(name, args):
        if name in ('int', 'bool', 'real', 'str', 'none', 'any'):
            return Ty(name)
        if name == 'float':
            return REAL
        if name in ('list', 'set', 'opt'):
            assert len(args) == 1, s
            return Ty(name, args)
        if name in ('dict', 'map'):
            assert len(args) == 2, s
            return Ty(name, args)
        if name == 'tuple':
            return Ty('tuple', args)
        if name in _SORT_NAMES:
            return Ty('sort', (), name)
        if name in ('Vec2', 'Vec3', 'Vec4'):
            return Ty('tuple', [REAL] * int(name[3]), 'Vec')
        if name in _VALUE_CLASSES:
            return _VALUE_CLASSES[name]
        if name in _OBJ_NAMES:
            return Ty('obj', (), name)
        raise ValueError('unknown type %r in %r' % (name, s))
    t = p()
    assert pos[0] == len(toks), s
    return t


# ----------------------------------------------------------------------------- sorts

_sort_cache = {}
_usorts = {}


def usort(name):
    if name not in _usorts:
        _usorts[name] = z3.DeclareSort(name)
    return _usorts[name]


def _tyname(t):
    return repr(t).replace('[', '_').replace(']', '').replace(',', '_')


def sort_of(t):
    """SMT sort of a type (datatypes for the structured ones)."""
    if t in _sort_cache:
        return _sort_cache[t]
    k = t.kind
    if k == 'int':
        s = z3.IntSort()
    elif k == 'bool':
        s = z3.BoolSort()
    elif k == 'real':
        s = z3.RealSort()
    elif k == 'str':
        s = z3.StringSort()
    elif k == 'sort':
        s = usort(t.name)
    elif k == 'obj':
        s = usort('Ref_' + t.name)       # objects inside containers: opaque reference
    elif k == 'none':
        s = usort('NoneSort')
    elif k == 'list':
        es = sort_of(t.args[0])
        d = z3.Datatype('L_' + _tyname(t.args[0]))
        d.declare('mk', ('arr', z3.ArraySort(z3.IntSort(), es)), ('n', z3.IntSort()))
        s = d.create()
    elif k == 'dict':
        ks, vs = sort_of(t.args[0]), sort_of(t.args[1])
        d = z3.Datatype('D_' + _tyname(t.args[0]) + '__' + _tyname(t.args[1]))
        d.declare('mk', ('dom', z3.ArraySort(ks, z3.BoolSort())), ('val', z3.ArraySort(ks, vs)),
                  ('keys', z3.ArraySort(z3.IntSort(), ks)), ('pos', z3.ArraySort(ks, z3.IntSort())),
                  ('n', z3.IntSort()))
        s = d.create()
    elif k == 'set':
        es = sort_of(t.args[0])
        d = z3.Datatype('S_' + _tyname(t.args[0]))
        d.declare('mk', ('dom', z3.ArraySort(es, z3.BoolSort())),
                  ('keys', z3.ArraySort(z3.IntSort(), es)), ('pos', z3.ArraySort(es, z3.IntSort())),
                  ('n', z3.IntSort()))
        s = d.create()
    elif k == 'map':
        s = z3.ArraySort(sort_of(t.args[0]), sort_of(t.args[1]))
    elif k == 'tuple':
        d = z3.Datatype(('R_%s_' % t.name if t.name else 'T_') + '_'.join(_tyname(a) for a in t.args) + '_%d' % len(t.args))
        d.declare('mk', *[('f%d' % i, sort_of(a)) for i, a in enumerate(t.args)])
        s = d.create()
    elif k == 'opt':
        d = z3.Datatype('O_' + _tyname(t.args[0]))
        d.declare('none')
        d.declare('some', ('v', sort_of(t.args[0])))
        s = d.create()
    else:
        raise ValueError('no sort for type %r' % (t,))
    _sort_cache[t] = s
    return s


# ----------------------------------------------------------------------------- values

class SV:
    """An SMT-sorted value: scalar, tuple-datatype, opt-datatype, ghost map, or a *packed*
    container (a container stored inside another container)."""
    __slots__ = ('t', 'e')

    def __init__(self, t, e):
        self.t = t
        self.e = e

    def __repr__(self):
        return 'SV(%r,%s)' % (self.t, self.e)


class NoneV:
    t = NONE

    def __repr__(self):
        return 'None'


NONEV = NoneV()


class TupV:
    """A Python tuple with statically known arity (items are values); `cls` is set for
    instances of value classes (records)."""
    __slots__ = ('items', 'cls')

    def __init__(self, items, cls=None):
        self.items = list(items)
        self.cls = cls

    @property
    def t(self):
        if self.cls == 'Complex':
            return Ty('tuple', [REAL, REAL], 'Complex')
        if self.cls == 'BVec':
            return Ty('tuple', [BOOL] * len(self.items), 'BVec')
        if self.cls in ('Vec', 'Mat'):
            return Ty('tuple', [type_of(x) if self.cls == 'Mat' else REAL for x in self.items], self.cls)
        if self.cls is not None:
            return _VALUE_CLASSES[self.cls]
        return Ty('tuple', [type_of(x) for x in self.items])

    def __repr__(self):
        return 'Tup%r' % (tuple(self.items),)


class Ref:
    """Reference to a store cell (list / dict / set / object)."""
    __slots__ = ('id', 't')

    def __init__(self, id, t):
        self.id = id
        self.t = t

    def __repr__(self):
        return 'Ref(%d:%r)' % (self.id, self.t)


class FunV:
    """lambda / nested def / module function / bound method"""
    __slots__ = ('kind', 'node', 'env', 'self', 'qual', 'module')

    def __init__(self, kind, node=None, env=None, self_=None, qual=None, module=None):
        self.kind = kind    # 'lambda' 'def' 'qual'
        self.node = node
        self.env = env
        self.self = self_
        self.qual = qual
        self.module = module
    t = Ty('fun')


class RangeV:
    __slots__ = ('start', 'stop', 'step')

    def __init__(self, start, stop, step):
        self.start, self.stop, self.step = start, stop, step
    t = Ty('range')


class StrConst:
    """concrete python string (dict keys for attribute names, mode flags...)"""
    __slots__ = ('s',)

    def __init__(self, s):
        self.s = s
    t = STR

    def __repr__(self):
        return 'Str(%r)' % self.s


class EmptyV:
    """an empty list / dict / set literal whose element type is not known yet; it becomes a
    typed container when bound to a declared field / local (contracts declare those types)"""
    __slots__ = ('kind',)

    def __init__(self, kind):
        self.kind = kind

    @property
    def t(self):
        return Ty('empty_' + self.kind)

    def __repr__(self):
        return 'Empty(%s)' % self.kind


class ModuleV:
    __slots__ = ('name',)

    def __init__(self, name):
        self.name = name
    t = Ty('module')


class ClassV:
    __slots__ = ('qual',)

    def __init__(self, qual):
        self.qual = qual
    t = Ty('class')


# store cells (immutable; updates replace the cell) -----------------------------------

class ListC:
    __slots__ = ('t', 'arr', 'n', 'parent')

    def __init__(self, t, arr, n, parent=None):
        self.t, self.arr, self.n, self.parent = t, arr, n, parent


class DictC:
    __slots__ = ('t', 'dom', 'val', 'keys', 'pos', 'n', 'parent')

    def __init__(self, t, dom, val, keys, pos, n, parent=None):
        self.t, self.dom, self.val, self.keys, self.pos, self.n, self.parent = t, dom, val, keys, pos, n, parent


class SetC:
    __slots__ = ('t', 'dom', 'keys', 'pos', 'n', 'parent')

    def __init__(self, t, dom, keys, pos, n, parent=None):
        self.t, self.dom, self.keys, self.pos, self.n, self.parent = t, dom, keys, pos, n, parent


class ObjC:
    __slots__ = ('cls', 'fields')

    def __init__(self, cls, fields):
        self.cls, self.fields = cls, fields


def type_of(v):
    if isinstance(v, (SV, Ref)):
        return v.t
    if isinstance(v, NoneV):
        return NONE
    if isinstance(v, TupV):
        return v.t
    if isinstance(v, StrConst):
        return STR
    if isinstance(v, bool):
        return BOOL
    if isinstance(v, int):
        return INT
    return getattr(v, 't', ANY)


def join_types(a, b):
    """least upper bound used when inferring the element type of a literal"""
    if a == b:
        return a
    if a is None:
        return b
    if b is None:
        return a
    if a.kind == 'none':
        return b if b.kind == 'opt' else Ty('opt', [b])
    if b.kind == 'none':
        return a if a.kind == 'opt' else Ty('opt', [a])
    if a.kind == 'opt' and b == a.args[0]:
        return a
    if b.kind == 'opt' and a == b.args[0]:
        return b
    if {a.kind, b.kind} == {'int', 'real'}:
        return REAL
    if {a.kind, b.kind} == {'bool', 'int'}:
        return INT
    if a.kind == 'tuple' and b.kind == 'tuple' and len(a.args) == len(b.args):
        return Ty('tuple', [join_types(x, y) for x, y in zip(a.args, b.args)])
    if a.kind == b.kind and a.kind in ('list', 'set', 'opt') :
        return Ty(a.kind, [join_types(a.args[0], b.args[0])])
    raise TypeError('cannot join %r and %r' % (a, b))
