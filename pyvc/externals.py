"""pyvc.externals -- assumed contracts of library functions (trusted base A7-A10).
Each handler documents the contract it assumes; the names used by a proof are recorded in the
evidence (`externals_used`)."""
import ast
import z3
from .ty import *
from .state import *
from .builtins import external
from .evalx import PathEnd
from .execs import Outcome

# ----------------------------------------------------------------------------- heapq (A8)
# is_heap(l): opaque predicate "l satisfies the heap invariant w.r.t. the items' __lt__".
# bag(l):     the multiset of the elements of l  (axioms B1, B2 in specs/priority_queue.py)
#
#   heappush(l, x): requires is_heap(l)
#                   ensures  is_heap(l'), len(l') = len(l)+1, bag(l') = bag(l)[x += 1]
#   heappop(l):     raises IndexError iff len(l) = 0;  requires is_heap(l)
#                   ensures  result = m with bag(l)[m] > 0 and for all i < len(l): not (l[i] < m)   (via the real __lt__)
#                            is_heap(l'), len(l') = len(l)-1, bag(l') = bag(l)[m -= 1]


def _heap_fns(t):
    S = sort_of(t)
    es = sort_of(t.args[0])
    is_heap = z3.Function('is_heap', S, z3.BoolSort())
    bag = z3.Function('bag', S, z3.ArraySort(es, z3.IntSort()))
    return S, is_heap, bag


@external('heapq.heappush')
def heappush(eng, args, kwargs, st, node):
    l, x = args
    c = st.store[l.id]
    S, is_heap, bag = _heap_fns(c.t)
    eng.ufuncs_used.update(('is_heap', 'bag'))
    old = S.mk(c.arr, c.n)
    eng.oblige(st, is_heap(old), 'precondition', 'call:heapq.heappush:requires[is_heap]', node)
    xv = pack(st, eng.lift(x), c.t.args[0])
    eng.havoc(st, {('cell', l.id)}, 'heappush')
    st.record_write(('cell', root_of(st, l).id))
    nc = st.store[l.id]
    new = S.mk(nc.arr, nc.n)
    st.assume(is_heap(new))
    st.assume(nc.n == c.n + 1)
    st.assume(bag(new) == z3.Store(bag(old), xv, z3.Select(bag(old), xv) + 1))
    write_through(st, l)
    yield NONEV, st


@external('heapq.heappop')
def heappop(eng, args, kwargs, st, node):
    l, = args
    c = st.store[l.id]
    S, is_heap, bag = _heap_fns(c.t)
    eng.ufuncs_used.update(('is_heap', 'bag'))
    old = S.mk(c.arr, c.n)
    rs = st.fork()
    rs.pc.append(c.n == 0)
    if eng.feasible(rs):
        eng.pending_raises[-1].append(Outcome('raise', rs, 'IndexError'))
    st.assume(c.n > 0)
    eng.oblige(st, is_heap(old), 'precondition', 'call:heapq.heappop:requires[is_heap]', node)
    m = fresh_value(st, c.t.args[0], 'heapmin')
    mv = pack(st, m, c.t.args[0])
    st.assume(z3.Select(bag(old), mv) > 0)

    def not_less(i):
        el = unpack(st, z3.Select(c.arr, i), c.t.args[0])
        return z3.Not(eng.record_lt(el, m, st, node))
    st.assume(q_index(c.n, not_less, name='hp'))
    eng.havoc(st, {('cell', l.id)}, 'heappop')
    st.record_write(('cell', root_of(st, l).id))
    nc = st.store[l.id]
    new = S.mk(nc.arr, nc.n)
    st.assume(is_heap(new))
    st.assume(nc.n == c.n - 1)
    st.assume(bag(new) == z3.Store(bag(old), mv, z3.Select(bag(old), mv) - 1))
    write_through(st, l)
    yield m, st


# ----------------------------------------------------------------------------- utils.keyify
# keyify(*args) / keyify(seq): the sorted tuple of its arguments (3-line body: list copy, list.sort (A6), tuple()).
# Modelled exactly for statically known lengths <= 4 by a sorting network of min/max.
@external('keyify')
def keyify(eng, args, kwargs, st, node):
    if len(args) == 1:
        v = eng.lift(args[0])
        if isinstance(v, SV) and v.t.kind in ('tuple', 'list'):
            v = unpack(st, v.e, v.t)
        if isinstance(v, TupV):
            items = list(v.items)
        elif isinstance(v, Ref) and isinstance(st.store[v.id], ListC) and z3.is_int_value(z3.simplify(st.store[v.id].n)):
            c = st.store[v.id]
            items = [unpack(st, z3.Select(c.arr, i), c.t.args[0]) for i in range(z3.simplify(c.n).as_long())]
        else:
            raise OutOfSubset('keyify of a sequence of unknown length')
    else:
        items = list(args)
    xs = [eng.num(x, st, node)[0] for x in items]
    if len(xs) > 4:
        raise OutOfSubset('keyify of more than 4 items')
    xs = list(xs)
    # bubble network
    for i in range(len(xs)):
        for j in range(len(xs) - 1 - i):
            a, b = xs[j], xs[j + 1]
            xs[j], xs[j + 1] = z3.If(a <= b, a, b), z3.If(a <= b, b, a)
    eng.externals_used.add('utils.keyify (sorted tuple of its arguments)')
    yield TupV([SV(INT, z3.simplify(x)) for x in xs]), st


# ----------------------------------------------------------------------------- scipy.sparse.lil_matrix (A-scipy)
# lil_matrix((n, m)) is modelled as its *entry map* (row, col) -> value: an empty Python dict keyed by index pairs.
#   mat[i, j] = v   overwrites exactly the entry (i, j)      (dict store)
#   mat.tocsc()     keeps the entries                        (identity on the entry map, see builtins.dict_method)
# Not modelled: scipy's IndexError for an index outside the shape (the shape is dropped), explicit zeros.
@external('scipy.lil_matrix')
def sp_lil_matrix(eng, args, kwargs, st, node):
    eng.externals_used.add('scipy.sparse.lil_matrix (entry map (row, col) -> value; item assignment overwrites one entry; tocsc() keeps entries)')
    t = Ty('dict', [Ty('tuple', [INT, INT]), REAL])
    yield new_dict(st, t, name='lil', empty=True), st
