"""pyvc.state -- symbolic state, store operations, packing of values into SMT sorts."""
import itertools
import z3
from .ty import *

_ids = itertools.count(1)
_fresh = itertools.count(1)

FINITE = {'K': None}     # finite-scope mode: K = bound on lengths / universe sizes


def q_index(n, body, kind='all', name='qi'):
    """forall / exists i in [0,n): body(i)  -- expanded over 0..K-1 in finite-scope mode (n <= K there)"""
    K = FINITE['K']
    if K is not None:
        parts = []
        for c in range(K):
            ci = z3.IntVal(c)
            b = body(ci)
            parts.append(z3.Implies(ci < n, b) if kind == 'all' else z3.And(ci < n, b))
        return z3.And(parts) if kind == 'all' else z3.Or(parts)
    i = fresh_const(name, z3.IntSort())
    if kind == 'all':
        return z3.ForAll([i], z3.Implies(z3.And(0 <= i, i < n), body(i)))
    return z3.Exists([i], z3.And(0 <= i, i < n, body(i)))


def q_sort(t, body, kind='all', name='qk'):
    """forall / exists x of type t: body(x)  -- expanded over the finite universe when t is an
    uninterpreted sort (or a tuple/opt of those) in finite-scope mode"""
    K = FINITE['K']
    if K is not None:
        uni = finite_universe_of(t)
        if uni is not None:
            parts = [body(c) for c in uni]
            return z3.And(parts) if kind == 'all' else z3.Or(parts)
    x = fresh_const(name, sort_of(t))
    return z3.ForAll([x], body(x)) if kind == 'all' else z3.Exists([x], body(x))


def finite_universe_of(t):
    if t.kind == 'sort':
        return finite_universe(t)
    if t.kind == 'bool':
        return [z3.BoolVal(False), z3.BoolVal(True)]
    if t.kind == 'tuple':
        subs = [finite_universe_of(a) for a in t.args]
        if any(u is None for u in subs):
            return None
        import itertools as _it
        S = sort_of(t)
        combos = list(_it.product(*subs))
        if len(combos) > 64:
            return None
        return [S.mk(*c) for c in combos]
    return None


class OutOfSubset(Exception):
    """the code uses something the front end does not model: function is not proved"""


class SpecError(Exception):
    """the contract cannot be bound to the code (contract out of date)"""


def fresh_name(base):
    return '%s!%d' % (base, next(_fresh))


def fresh_const(base, sort):
    return z3.Const(fresh_name(base), sort)


class Ob:
    """a proof obligation: pc => goal"""
    __slots__ = ('name', 'pc', 'goal', 'kind', 'path', 'where', 'fn', 'assumes', 'env', 'store')

    def __init__(self, name, pc, goal, kind, path, where, fn, env=None, store=None):
        self.name, self.pc, self.goal, self.kind, self.path, self.where, self.fn = name, list(pc), goal, kind, path, where, fn
        self.env, self.store = env, store


class State:
    __slots__ = ('env', 'store', 'pc', 'path', 'old', 'spec', 'ret', 'exc', 'depth', 'recording', 'module',
                 'cls', 'fnqual', 'loopvars', 'assumed')

    def __init__(self):
        self.env = {}
        self.store = {}
        self.pc = []
        self.path = []
        self.old = None       # (env, store) snapshot for old()
        self.spec = False
        self.ret = None
        self.exc = None
        self.depth = 0
        self.recording = None   # set of written locations while recording loop effects
        self.module = None
        self.cls = None
        self.fnqual = None
        self.loopvars = {}
        self.assumed = []

    def fork(self):
        s = State()
        s.env = dict(self.env)
        s.store = dict(self.store)
        s.pc = list(self.pc)
        s.path = list(self.path)
        s.old = self.old
        s.spec = self.spec
        s.ret = self.ret
        s.exc = self.exc
        s.depth = self.depth
        s.recording = self.recording
        s.module = self.module
        s.cls = self.cls
        s.fnqual = self.fnqual
        s.loopvars = dict(self.loopvars)
        s.assumed = self.assumed
        return s

    def assume(self, b):
        if z3.is_true(b):
            return
        from .evalx import split_goal
        for part in split_goal(b):
            self.pc.append(part)

    # ------------------------------------------------------------------ store
    def alloc(self, cell):
        i = next(_ids)
        self.store[i] = cell
        return i

    def cell(self, ref):
        return self.store[ref.id]

    def record_write(self, loc):
        if self.recording is not None:
            self.recording.add(loc)


# ----------------------------------------------------------------------------- constructors

def mk_int(i):
    return SV(INT, z3.IntVal(i))


def mk_bool(b):
    return SV(BOOL, z3.BoolVal(bool(b)))


def mk_real(x):
    if isinstance(x, float):
        return SV(REAL, z3.RealVal(repr(x)))
    return SV(REAL, z3.RealVal(x))


class OptV:
    """python-side optional: `none` is a z3 Bool, val the value when not None"""
    __slots__ = ('none', 'val', 't')

    def __init__(self, none, val, t):
        self.none, self.val, self.t = none, val, t

    def __repr__(self):
        return 'Opt(%s,%r)' % (self.none, self.val)


def new_list(st, t, arr=None, n=None, name='l', parent=None):
    es = sort_of(t.args[0])
    if arr is None:
        arr = fresh_const(name + '_arr', z3.ArraySort(z3.IntSort(), es))
    if n is None:
        n = fresh_const(name + '_n', z3.IntSort())
        st.assume(n >= 0)
        if FINITE['K'] is not None:
            st.assume(n <= FINITE['K'])
    return Ref(st.alloc(ListC(t, arr, n, parent)), t)


def _keys_axioms(st, kt, dom, keys, pos, n):
    """keys[0..n) enumerates dom without repetition (A5: iteration order is some fixed order)"""
    st.assume(n >= 0)
    if FINITE['K'] is not None:
        st.assume(n <= FINITE['K'])
    st.assume(q_index(n, lambda i: z3.And(z3.Select(dom, z3.Select(keys, i)), z3.Select(pos, z3.Select(keys, i)) == i), name='ki'))
    st.assume(q_sort(kt, lambda k: z3.Implies(z3.Select(dom, k),
                                              z3.And(0 <= z3.Select(pos, k), z3.Select(pos, k) < n,
                                                     z3.Select(keys, z3.Select(pos, k)) == k)), name='kk'))


def _finite_keyed(st, kt, name):
    """finite-scope mode: a symbolic dict / set has at most K keys; its domain is *defined* from the key
    enumeration, so no quantified axiom over the (possibly infinite) key sort is needed"""
    K = FINITE['K']
    ks = sort_of(kt)
    keys = fresh_const(name + '_keys', z3.ArraySort(z3.IntSort(), ks))
    n = fresh_const(name + '_n', z3.IntSort())
    st.assume(z3.And(n >= 0, n <= K))
    for i in range(K):
        for j in range(i + 1, K):
            st.assume(z3.Implies(z3.IntVal(j) < n, z3.Select(keys, i) != z3.Select(keys, j)))
    k = fresh_const('fk', ks)
    dom = z3.Lambda([k], z3.Or([z3.And(z3.IntVal(i) < n, z3.Select(keys, i) == k) for i in range(K)]))
    posv = z3.IntVal(0)
    for i in range(K - 1, -1, -1):
        posv = z3.If(z3.Select(keys, i) == k, z3.IntVal(i), posv)
    pos = z3.Lambda([k], posv)
    return dom, keys, pos, n


def new_dict(st, t, name='d', empty=False, parent=None, parts=None):
    ks, vs = sort_of(t.args[0]), sort_of(t.args[1])
    if parts is not None:
        dom, val, keys, pos, n = parts
    elif empty:
        dom = z3.K(ks, z3.BoolVal(False))
        val = fresh_const(name + '_val', z3.ArraySort(ks, vs))
        keys = fresh_const(name + '_keys', z3.ArraySort(z3.IntSort(), ks))
        pos = fresh_const(name + '_pos', z3.ArraySort(ks, z3.IntSort()))
        n = z3.IntVal(0)
    elif FINITE['K'] is not None and finite_universe_of(t.args[0]) is None:
        dom, keys, pos, n = _finite_keyed(st, t.args[0], name)
        val = fresh_const(name + '_val', z3.ArraySort(ks, vs))
    else:
        dom = fresh_const(name + '_dom', z3.ArraySort(ks, z3.BoolSort()))
        val = fresh_const(name + '_val', z3.ArraySort(ks, vs))
        keys = fresh_const(name + '_keys', z3.ArraySort(z3.IntSort(), ks))
        pos = fresh_const(name + '_pos', z3.ArraySort(ks, z3.IntSort()))
        n = fresh_const(name + '_n', z3.IntSort())
        _keys_axioms(st, t.args[0], dom, keys, pos, n)
    return Ref(st.alloc(DictC(t, dom, val, keys, pos, n, parent)), t)


def new_set(st, t, name='s', empty=False, parent=None, parts=None):
    es = sort_of(t.args[0])
    if parts is not None:
        dom, keys, pos, n = parts
    elif empty:
        dom = z3.K(es, z3.BoolVal(False))
        keys = fresh_const(name + '_keys', z3.ArraySort(z3.IntSort(), es))
        pos = fresh_const(name + '_pos', z3.ArraySort(es, z3.IntSort()))
        n = z3.IntVal(0)
    elif FINITE['K'] is not None and finite_universe_of(t.args[0]) is None:
        dom, keys, pos, n = _finite_keyed(st, t.args[0], name)
    else:
        dom = fresh_const(name + '_dom', z3.ArraySort(es, z3.BoolSort()))
        keys = fresh_const(name + '_keys', z3.ArraySort(z3.IntSort(), es))
        pos = fresh_const(name + '_pos', z3.ArraySort(es, z3.IntSort()))
        n = fresh_const(name + '_n', z3.IntSort())
        _keys_axioms(st, t.args[0], dom, keys, pos, n)
    return Ref(st.alloc(SetC(t, dom, keys, pos, n, parent)), t)


# ----------------------------------------------------------------------------- pack / unpack

def pack(st, v, t):
    """value -> z3 expr of sort_of(t) (coercing int->real, T->opt[T], tuples, containers)"""
    k = t.kind
    if isinstance(v, bool):
        v = mk_bool(v)
    elif isinstance(v, int):
        v = mk_int(v)
    elif isinstance(v, float):
        v = mk_real(v)
    if k == 'opt':
        S = sort_of(t)
        if isinstance(v, NoneV):
            return S.none
        if isinstance(v, OptV):
            if z3.is_true(v.none):
                return S.none
            inner = pack(st, v.val, t.args[0])
            if z3.is_false(v.none):
                return S.some(inner)
            return z3.If(v.none, S.none, S.some(inner))
        if isinstance(v, SV) and v.t == t:
            return v.e
        return S.some(pack(st, v, t.args[0]))
    if isinstance(v, OptV):
        raise OutOfSubset('optional value used where %r expected' % (t,))
    if k == 'any':
        raise OutOfSubset('cannot pack into any')
    if isinstance(v, StrConst):
        if k == 'str':
            return z3.StringVal(v.s)
        raise TypeError('str into %r' % (t,))
    if isinstance(v, SV):
        if v.t == t:
            return v.e
        if k == 'real' and v.t.kind == 'int':
            return z3.ToReal(v.e)
        if k == 'int' and v.t.kind == 'bool':
            return z3.If(v.e, z3.IntVal(1), z3.IntVal(0))
        if k == 'real' and v.t.kind == 'bool':
            return z3.If(v.e, z3.RealVal(1), z3.RealVal(0))
        if k == 'tuple' and v.t.kind == 'tuple' and len(v.t.args) == len(t.args):
            S0 = sort_of(v.t)
            items = [SV(v.t.args[i], S0.accessor(0, i)(v.e)) for i in range(len(t.args))]
            return pack(st, TupV(items), t)
        if v.t.kind in ('list', 'dict', 'set') and v.t.kind == k:
            if sort_of(v.t) == sort_of(t):
                return v.e
        raise TypeError('cannot pack %r as %r' % (v, t))
    if isinstance(v, TupV) and k == 'list' and v.cls is None:
        # Row abstraction: index rows (tuples / lists) are sequences of ints; the container type of a row
        # is not observable by the modelled operations (len, indexing, iteration)
        S = sort_of(t)
        arr = z3.K(z3.IntSort(), pack(st, v.items[0], t.args[0])) if v.items else fresh_const('row', z3.ArraySort(z3.IntSort(), sort_of(t.args[0])))
        for i, x in enumerate(v.items):
            arr = z3.Store(arr, i, pack(st, x, t.args[0]))
        return S.mk(arr, z3.IntVal(len(v.items)))
    if isinstance(v, TupV):
        if k != 'tuple' or len(t.args) != len(v.items) or (t.name or None) != (v.cls or None):
            raise TypeError('cannot pack tuple %r as %r' % (v, t))
        S = sort_of(t)
        return S.mk(*[pack(st, x, a) for x, a in zip(v.items, t.args)])
    if isinstance(v, Ref):
        c = st.store[v.id]
        if isinstance(c, ListC):
            if k != 'list':
                raise TypeError('list into %r' % (t,))
            S = sort_of(t)
            if c.t == t:
                return S.mk(c.arr, c.n)
            # element coercion (e.g. list[int] -> list[opt[int]]) through a lambda
            i = fresh_const('ci', z3.IntSort())
            el = pack(st, unpack(st, z3.Select(c.arr, i), c.t.args[0]), t.args[0])
            return S.mk(z3.Lambda([i], el), c.n)
        if isinstance(c, DictC):
            if c.t != t:
                raise TypeError('dict %r into %r' % (c.t, t))
            return sort_of(t).mk(c.dom, c.val, c.keys, c.pos, c.n)
        if isinstance(c, SetC):
            if c.t != t:
                raise TypeError('set %r into %r' % (c.t, t))
            return sort_of(t).mk(c.dom, c.keys, c.pos, c.n)
        if isinstance(c, ObjC):
            raise OutOfSubset('object stored inside a container')
    if isinstance(v, NoneV):
        if k == 'none':
            return z3.Const('NoneValue', sort_of(t))
        raise TypeError('None into %r' % (t,))
    raise TypeError('cannot pack %r as %r' % (v, t))


def unpack(st, e, t, parent=None):
    """z3 expr of sort_of(t) -> value.  Containers get a fresh store cell linked to `parent`
    (parent = (container ref, packed key)) so that mutations write through."""
    k = t.kind
    if k in ('int', 'bool', 'real', 'str', 'sort', 'map', 'obj'):
        return SV(t, e)
    if k == 'none':
        return NONEV
    if k == 'tuple':
        S = sort_of(t)
        return TupV([unpack(st, S.accessor(0, i)(e), a) for i, a in enumerate(t.args)], t.name)
    if k == 'opt':
        S = sort_of(t)
        isn = z3.simplify(S.is_none(e))
        inner = unpack(st, S.v(e), t.args[0], parent)
        if z3.is_false(isn):
            return inner
        if z3.is_true(isn):
            return NONEV
        return OptV(isn, inner, t)
    if k == 'list':
        S = sort_of(t)
        return Ref(st.alloc(ListC(t, S.arr(e), S.n(e), parent)), t)
    if k == 'dict':
        S = sort_of(t)
        return Ref(st.alloc(DictC(t, S.dom(e), S.val(e), S.keys(e), S.pos(e), S.n(e), parent)), t)
    if k == 'set':
        S = sort_of(t)
        return Ref(st.alloc(SetC(t, S.dom(e), S.keys(e), S.pos(e), S.n(e), parent)), t)
    raise OutOfSubset('unpack %r' % (t,))


def write_through(st, ref):
    """after a mutation of a derived container, update the parent container's element"""
    c = st.store[ref.id]
    p = getattr(c, 'parent', None)
    if p is None:
        return
    pref, key = p
    pc = st.store[pref.id]
    packed = pack(st, ref, pc.t.args[-1] if pc.t.args[-1].kind != 'opt' else pc.t.args[-1])
    if isinstance(pc, ListC):
        st.store[pref.id] = ListC(pc.t, z3.Store(pc.arr, key, packed), pc.n, pc.parent)
    elif isinstance(pc, DictC):
        st.store[pref.id] = DictC(pc.t, pc.dom, z3.Store(pc.val, key, packed), pc.keys, pc.pos, pc.n, pc.parent)
    else:
        raise OutOfSubset('write-through into %r' % type(pc))
    st.record_write(('cell', root_of(st, pref).id))
    write_through(st, pref)


def root_of(st, ref):
    c = st.store[ref.id]
    while getattr(c, 'parent', None) is not None:
        ref = c.parent[0]
        c = st.store[ref.id]
    return ref


def fresh_value(st, t, name):
    """an unconstrained symbolic value of type t (havoc / parameters)"""
    k = t.kind
    if k in ('int', 'bool', 'real', 'str', 'sort', 'map'):
        e = fresh_const(name, sort_of(t))
        if k == 'sort' and FINITE['K'] is not None:
            st.assume(z3.Or([e == c for c in finite_universe(t)]))
        return SV(t, e)
    if k == 'none':
        return NONEV
    if k == 'list':
        return new_list(st, t, name=name)
    if k == 'dict':
        return new_dict(st, t, name=name)
    if k == 'set':
        return new_set(st, t, name=name)
    if k == 'tuple':
        return TupV([fresh_value(st, a, '%s_%d' % (name, i)) for i, a in enumerate(t.args)], t.name)
    if k == 'opt':
        isn = fresh_const(name + '_isnone', z3.BoolSort())
        return OptV(isn, fresh_value(st, t.args[0], name), t)
    if k == 'obj':
        from .spec import REG
        cs = REG.cls(t.name)
        if cs is None:
            raise OutOfSubset('no class spec for %s' % t.name)
        fields = {f: fresh_value(st, ft, '%s.%s' % (name, f)) for f, ft in cs.all_fields().items()}
        return Ref(st.alloc(ObjC(cs.qual, fields)), t)
    raise OutOfSubset('fresh value of type %r' % (t,))


_universes = {}


def finite_universe(t):
    K = FINITE['K']
    key = (t, K)
    if key not in _universes:
        _universes[key] = [z3.Const('%s#%d' % (t.name, i), sort_of(t)) for i in range(K)]
    return _universes[key]
