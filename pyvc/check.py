"""pyvc.check -- the per-property check:  ./check <Cxx> [--tier quick|thorough] [--replay FILE]

exit 0  every obligation of the property discharged (known findings printed as KNOWN-FINDING)
exit 1  VIOLATION property=<id> replay=<path> [no-failing-input-found]
exit 2  UNDECIDED (unknown / out-of-subset / contract-out-of-date) -- never reported as a violation
exit 3  internal error
"""
import sys, os, json, time, importlib, hashlib, subprocess, traceback, multiprocessing as mp

ROOT = os.path.dirname(os.path.dirname(os.path.abspath(__file__)))
REPO = os.environ.get('PYVC_REPO', '/repo')
NATIVE_PY = '/venv/bin/python'


def load_prop(pid):
    return importlib.import_module('props.%s' % pid).PROP


def _verify_one(args):
    pid, qual, timeout_ms, extra_requires = args
    try:
        from .engine import Engine
        from .spec import REG, parse_expr
        prop = load_prop(pid)
        for m in prop['specs']:
            importlib.import_module(m)
        eng = Engine(timeout_ms=timeout_ms)
        if extra_requires:
            sp = REG.fns[qual]
            saved = (list(sp.requires), list(sp.requires_src))
            for r in extra_requires:
                sp.requires.append(parse_expr(r))
                sp.requires_src.append(r)
        r = eng.verify(qual)
        d = r.as_dict()
        fi = eng.index.fns.get(qual)
        if fi is not None:
            d['file'] = os.path.relpath(fi.path, eng.index.root)
            d['file_sha256'] = eng.index.files[fi.module][1]
        sp = REG.fns.get(qual)
        d['contract'] = {'requires': sp.requires_src, 'ensures': sp.ensures_src, 'raises': sp.raises_src,
                         'modifies': sp.modifies, 'loops': {str(k): v.invariant_src for k, v in sp.loops.items()}} if sp else None
        return d
    except Exception:
        return {'fn': qual, 'status': 'error', 'reason': traceback.format_exc(), 'obligations': [], 'time': 0}


def strip_err(d):
    if isinstance(d, dict):
        return {k: v for k, v in d.items() if k not in ('error', 'seed')}
    return d


def matches(pattern, case):
    """a known-finding pattern covers a failing case when every key it gives (except error / seed) has the same
    value in the case: a full case dict matches only itself, a partial one a whole class (same call site / input family)"""
    if not isinstance(pattern, dict) or not isinstance(case, dict):
        return pattern == case
    for k, v in pattern.items():
        if k in ('error', 'seed'):
            continue
        if k not in case:
            return False
        if isinstance(v, dict) and isinstance(case[k], dict):
            if not matches(v, case[k]):
                return False
        elif case[k] != v:
            return False
    return True


def run_native(pid, payload, timeout=600):
    """replay / bounded search on the REAL code (same working tree) under the repo's interpreter"""
    mod = os.path.join(ROOT, 'replay', '%s.py' % pid)
    if not os.path.exists(mod):
        return {'ran': False, 'reason': 'no replay harness'}
    env = dict(os.environ)
    env['PYTHONPATH'] = REPO + os.pathsep + ROOT
    env['NUMBA_DISABLE_JIT'] = '1'
    env['PYTHONWARNINGS'] = 'ignore'
    try:
        p = subprocess.run([NATIVE_PY, mod], input=json.dumps(payload), capture_output=True, text=True, timeout=timeout, env=env, cwd=ROOT)
    except subprocess.TimeoutExpired:
        return {'ran': True, 'timeout': True, 'failing': None}
    out = p.stdout.strip().splitlines()
    for line in reversed(out):
        if line.startswith('{'):
            try:
                d = json.loads(line)
                d['ran'] = True
                return d
            except Exception:
                pass
    return {'ran': True, 'error': (p.stderr or p.stdout)[-2000:], 'failing': None}


def main(argv=None):
    argv = argv or sys.argv[1:]
    pid = argv[0]
    tier = os.environ.get('VERIF_TIER', 'quick')
    if '--tier' in argv:
        tier = argv[argv.index('--tier') + 1]
    seed = int(os.environ.get('VERIF_SEED', '0') or 0)
    t0 = time.time()
    sys.path.insert(0, ROOT)
    try:
        prop = load_prop(pid)
    except Exception:
        traceback.print_exc()
        return 3
    if '--replay' in argv:
        path = argv[argv.index('--replay') + 1]
        payload = json.load(open(path))
        r = run_native(pid, {'mode': 'replay', 'case': payload})
        print(json.dumps(r, indent=1))
        return 1 if r.get('failing') else 0
    timeout_ms = 20000 if tier == 'quick' else 60000
    findings = [f for f in json.load(open(os.path.join(ROOT, 'known_findings.json')))['findings'] if f['property'] == pid and f.get('status') == 'open']
    excl = {}
    for f in findings:
        if f.get('exclude'):
            excl.setdefault(f['function'], []).append(f['exclude'])
    jobs = []
    for q in prop['functions']:
        jobs.append((pid, q, timeout_ms, None))
        if q in excl:
            jobs.append((pid, q, timeout_ms, excl[q]))
    nproc = min(16, max(1, len(jobs)))
    with mp.Pool(nproc) as pool:
        results = pool.map(_verify_one, jobs, chunksize=1)
    plain = {}
    restricted = {}
    for (p_, q, _, ex), r in zip(jobs, results):
        (restricted if ex else plain)[q] = r

    violations, undecided, known_lines = [], [], []
    n_ob = n_dis = 0
    samples = []
    fn_records = []
    solver_time = 0.0
    externals, contracts_used, inlined = set(), set(), set()
    for q in prop['functions']:
        r = plain[q]
        known_here = [f for f in findings if f['function'] == q]
        eff = r
        if known_here and q in restricted:
            eff = restricted[q]       # the obligations counted are those proved under `not case`
        fn_records.append({'qualname': q, 'file': r.get('file'), 'file_sha256': r.get('file_sha256'), 'ast_sha': r.get('sha'),
                           'status': eff.get('status'), 'obligations': len(eff.get('obligations', [])), 'time_s': round(eff.get('time', 0), 2),
                           'reason': eff.get('reason')})
        externals.update(eff.get('externals_used') or [])
        contracts_used.update(eff.get('contracts_used') or [])
        inlined.update(eff.get('inlined') or [])
        for o in eff.get('obligations', []):
            n_ob += 1
            solver_time += o.get('time', 0)
            if o['status'] == 'discharged':
                n_dis += 1
                if len(samples) < 12:
                    samples.append({'function': q, 'obligation': o['name'], 'kind': o['kind'], 'instances': o['instances'], 'backend': o['backend'], 'time_s': o['time']})
        # failures of the unrestricted run that match a known finding
        matched = set()
        for o in r.get('obligations', []):
            if o['status'] == 'discharged':
                continue
            base = o['name'].split('/')[0]
            kf = [f for f in known_here if f['obligation'] == base or f['obligation'] == o['name']]
            if kf:
                matched.add(kf[0]['id'])
        for f in known_here:
            if f['id'] in matched or r.get('status') in ('failed', 'undecided'):
                nat = run_native(pid, {'mode': 'replay', 'case': f.get('input')}) if f.get('input') is not None else {'failing': True}
                if nat.get('failing'):
                    known_lines.append('KNOWN-FINDING: property=%s %s' % (pid, f['what']))
        if eff.get('status') == 'proved':
            continue
        if eff.get('status') == 'failed':
            for o in eff['obligations']:
                if o['status'] == 'failed':
                    violations.append((q, o))
            for o in eff['obligations']:
                if o['status'] == 'unknown':
                    undecided.append((q, o['name'], 'solver unknown'))
        elif eff.get('status') == 'undecided':
            for o in eff['obligations']:
                if o['status'] == 'unknown':
                    undecided.append((q, o['name'], 'solver unknown'))
            if not eff['obligations']:
                undecided.append((q, '-', eff.get('reason')))
        else:
            undecided.append((q, '-', '%s: %s' % (eff.get('status'), eff.get('reason'))))

    # bounded stand-ins (never counted as proved)
    bounded = []
    for b in prop.get('bounded', []):
        if tier == 'quick' and b.get('tier') == 'thorough':
            continue
        patterns = [f for f in findings if f.get('input') is not None]
        req = {'mode': 'bounded', 'name': b['name'], 'seed': seed, 'tier': tier, 'known': [f['input'] for f in patterns], 'all': True, 'collect': True}
        nat = run_native(pid, req, timeout=b.get('timeout', 1500))
        allf = nat.get('all_failures')
        if allf is None:
            allf = nat.get('all_failing')
        hit = {}
        if allf is not None:
            # the oracle listed every failing case: those covered by a known-finding pattern are set aside
            rest = []
            for c in allf:
                m = [f for f in patterns if matches(f['input'], c)]
                if m:
                    hit[m[0]['id']] = m[0]
                else:
                    rest.append(c)
            nat = dict(nat)
            nat['failing'] = rest[0] if rest else None
            nat['n_failing_unlisted'] = len(rest)
        else:
            # the oracle stops at its first failure: feed known cases back until something unlisted (or nothing) fails
            known_exact = []
            for _ in range(60):
                fc = nat.get('failing')
                if not fc:
                    break
                m = [f for f in patterns if matches(f['input'], fc)]
                if not m:
                    break
                hit[m[0]['id']] = m[0]
                known_exact.append(fc)
                req2 = dict(req)
                req2['known'] = [f['input'] for f in patterns] + known_exact
                nat = run_native(pid, req2, timeout=b.get('timeout', 1500))
            for kh in (nat.get('known_hit') or []):
                for f in patterns:
                    if matches(f['input'], kh):
                        hit[f['id']] = f
        for kh in (nat.get('known_hit') or []):
            for f in patterns:
                if matches(f['input'], kh):
                    hit[f['id']] = f
        for f in hit.values():
            known_lines.append('KNOWN-FINDING: property=%s %s' % (pid, f['what']))
        rec = {'function': b['function'], 'engine': b['engine'], 'bound': b['bound'], 'result': 'pass' if nat.get('ran') and not nat.get('failing') and not nat.get('error') else ('fail' if nat.get('failing') else 'error'),
               'cases': nat.get('cases')}
        bounded.append(rec)
        if nat.get('failing'):
            violations.append((b['function'], {'name': 'bounded:%s' % b['name'], 'status': 'failed', 'kind': 'bounded', 'native': nat}))
        elif nat.get('error') or not nat.get('ran'):
            undecided.append((b['function'], 'bounded:%s' % b['name'], str(nat.get('error') or nat.get('reason'))[:300]))

    # functions the verifier could not decide (unknown / out of subset / contract out of date): a bounded
    # native search on the real code may still exhibit a concrete failing input (labelled as such)
    und_fns = sorted({q for q, _, _ in undecided if not str(_).startswith('bounded:')})
    for q in und_fns:
        if any(v[0] == q for v in violations):
            continue
        nat = run_native(pid, {'mode': 'search', 'function': q, 'obligation': None, 'model': None, 'seed': seed}, timeout=300)
        if nat.get('failing'):
            violations.append((q, {'name': 'undecided-by-verifier:bounded-native-search', 'status': 'failed', 'kind': 'bounded', 'native': nat,
                                   'model_scope': 'no solver verdict; failing input found by the bounded native search of the replay harness'}))
            undecided = [u for u in undecided if u[0] != q]

    # replay of failed obligations on the real code
    exit_code = 0
    out_lines = []
    os.makedirs(os.path.join(ROOT, 'replays', pid), exist_ok=True)
    reported = 0
    for q, o in violations:
        nat = o.get('native')
        if nat is None:
            nat = run_native(pid, {'mode': 'search', 'function': q, 'obligation': o['name'], 'model': o.get('model'), 'seed': seed})
        import re as _re
        rp = os.path.join('replays', pid, '%s__%s.json' % (_re.sub(r'[^A-Za-z0-9_]+', '_', q.split('.')[-1])[:40], _re.sub(r'[^A-Za-z0-9_\[\]-]+', '_', o['name'])[:80]))
        failing = nat.get('failing') if isinstance(nat, dict) else None
        json.dump({'property': pid, 'function': q, 'obligation': o['name'], 'kind': o.get('kind'), 'path': o.get('path'),
                   'solver': {'status': o['status'], 'scope': o.get('model_scope'), 'model': o.get('model')},
                   'native_replay': nat, 'failing_input': failing}, open(os.path.join(ROOT, rp), 'w'), indent=1, default=str)
        kf = [f for f in findings if f.get('input') is not None and failing is not None and matches(f.get('input'), failing)]
        if kf:
            known_lines.append('KNOWN-FINDING: property=%s %s' % (pid, kf[0]['what']))
            continue
        reported += 1
        out_lines.append('VIOLATION property=%s replay=%s%s' % (pid, rp, '' if failing else ' no-failing-input-found'))
        exit_code = 1
    for l in sorted(set(known_lines)):
        print(l)
    for l in out_lines:
        print(l)
    if exit_code == 0 and undecided:
        exit_code = 2
        for q, name, why in undecided[:20]:
            print('UNDECIDED property=%s function=%s obligation=%s reason=%s' % (pid, q, name, str(why).splitlines()[-1][:300] if why else ''))
    if exit_code == 0 and n_ob == 0 and not (prop.get('level') == 'other' and bounded and not prop['functions']):
        print('UNDECIDED property=%s no obligations generated' % pid)
        exit_code = 2

    level = prop.get('level', 'proof')
    ev = {
        'property_id': pid, 'tier': tier, 'seed': seed, 'level': level,
        'coverage': {
            'obligations': n_ob, 'discharged': n_dis,
            'checker_cmd': './check %s --tier %s' % (pid, tier),
            'trusted_base': prop.get('trusted_base', []) + ['external contract: %s' % e for e in sorted(externals)],
            'samples': samples,
            'functions_under_contract': fn_records,
            'contracts_used_at_call_sites': sorted(contracts_used),
            'functions_inlined': sorted(inlined),
            'backends': {'z3': n_dis},
            'solver_time_s': round(solver_time, 2),
            'bounded': bounded,
            'clauses_not_decided': prop.get('not_decided', []),
            'math_assumptions': prop.get('math', []),
            'known_findings': sorted(set(known_lines)),
            'undecided': [list(map(str, u)) for u in undecided[:50]],
            'explanation': prop.get('explanation', ''),
            'rule': 'one obligation = one named proof goal (postcondition conjunct, invariant entry/preservation, call-site precondition, safety, frame, termination) over all paths of one function; discharged = z3 unsat on every path instance',
            'evaluations': n_ob + sum(int(b.get('cases') or 0) for b in bounded), 'distinct_nontrivial': n_dis + sum(int(b.get('cases') or 0) for b in bounded),
        },
        'assumptions': prop.get('trusted_base', []),
        'wall_s': round(time.time() - t0, 2),
        'violations': reported,
    }
    os.makedirs(os.path.join(ROOT, 'evidence'), exist_ok=True)
    json.dump(ev, open(os.path.join(ROOT, 'evidence', '%s.json' % pid), 'w'), indent=1, default=str)
    print('%s: %d/%d obligations discharged, %d functions, %d bounded stand-ins, %.1fs, exit %d' % (pid, n_dis, n_ob, len(prop['functions']), len(bounded), time.time() - t0, exit_code))
    return exit_code


if __name__ == '__main__':
    try:
        sys.exit(main())
    except SystemExit:
        raise
    except Exception:
        traceback.print_exc()
        sys.exit(3)
