"""pyvc.execs -- statement execution: path splitting, loops cut by invariants."""
import ast
import z3
from .ty import *
from .state import *
from .evalx import PathEnd, EnumV, ZipV, ItemsV, ValuesV, has_impure_call


class Outcome:
    __slots__ = ('kind', 'st', 'val')

    def __init__(self, kind, st, val=None):
        self.kind, self.st, self.val = kind, st, val   # kind: normal return break continue raise


IGNORED_CALLS = {'print', 'warn'}


class ExecMixin:

    def ex_block(self, stmts, st):
        """execute a statement list; yields Outcomes"""
        if not stmts:
            yield Outcome('normal', st)
            return
        head, rest = stmts[0], stmts[1:]
        try:
            outs = list(self.ex(head, st))
        except PathEnd:
            return
        for o in outs:
            if o.kind == 'normal':
                yield from self.ex_block(rest, o.st)
            else:
                yield o

    def ex(self, s, st):
        m = getattr(self, 'ex_' + type(s).__name__, None)
        if m is None:
            raise OutOfSubset('statement %s' % type(s).__name__)
        self.steps += 1
        if self.steps > self.max_steps:
            raise OutOfSubset('path explosion (> %d statements executed)' % self.max_steps)
        try:
            yield from m(s, st)
        except PathEnd:
            return

    def ex_Pass(self, s, st):
        yield Outcome('normal', st)

    def ex_Global(self, s, st):
        raise OutOfSubset('global')

    def ex_Import(self, s, st):
        yield Outcome('normal', st)

    def ex_ImportFrom(self, s, st):
        yield Outcome('normal', st)

    def ex_Expr(self, s, st):
        if isinstance(s.value, ast.Constant):
            yield Outcome('normal', st)
            return
        if self.is_ignored_call(s.value):
            yield Outcome('normal', st)
            return
        for v, st1 in self.ev_or_raise(s.value, st):
            if isinstance(v, Outcome):
                yield v
            else:
                yield Outcome('normal', st1)

    def is_ignored_call(self, e):
        """logging / warnings / printing have no effect on the modelled state (dropped, DESIGN 2.1)"""
        if isinstance(e, ast.Call):
            f = e.func
            if isinstance(f, ast.Name) and f.id in IGNORED_CALLS:
                return True
            if isinstance(f, ast.Attribute):
                if f.attr in ('log', 'warn') and isinstance(f.value, ast.Name) and f.value.id in ('self', 'warnings', 'logger', 'logging'):
                    return True
                if f.attr in ('log', 'warn') and isinstance(f.value, ast.Attribute) and f.value.attr in ('logger', '_logger'):
                    return True
        return False

    def ev_or_raise(self, e, st):
        """evaluate an expression; calls may produce raise-outcomes which are passed through"""
        self.pending_raises.append([])
        try:
            outs = list(self.ev(e, st))
        except PathEnd:
            outs = []
        raises = self.pending_raises.pop()
        for r in raises:
            yield r, r.st
        yield from outs

    def ex_Return(self, s, st):
        if s.value is None:
            yield Outcome('return', st, NONEV)
            return
        for v, st1 in self.ev_or_raise(s.value, st):
            if isinstance(v, Outcome):
                yield v
            else:
                yield Outcome('return', st1, v)

    def ex_Raise(self, s, st):
        name = None
        if s.exc is not None:
            f = s.exc.func if isinstance(s.exc, ast.Call) else s.exc
            name = f.id if isinstance(f, ast.Name) else (f.attr if isinstance(f, ast.Attribute) else None)
        if name is None:
            raise OutOfSubset('raise without class')
        yield Outcome('raise', st, name)

    def ex_Assert(self, s, st):
        for v, st1 in self.ev_or_raise(s.test, st):
            if isinstance(v, Outcome):
                yield v
                continue
            c = self.truth(v, st1)
            stF = st1.fork()
            stF.pc.append(z3.Not(c))
            if self.feasible(stF):
                yield Outcome('raise', stF, 'AssertionError')
            st1.assume(c)
            yield Outcome('normal', st1)

    def ex_Assign(self, s, st):
        hint = None
        for v, st1 in self.ev_or_raise(s.value, st):
            if isinstance(v, Outcome):
                yield v
                continue
            ok = True
            for tgt in s.targets:
                outs = list(self.assign(tgt, v, st1))
                if len(outs) != 1:
                    # assignment through __setitem__ may fork / raise
                    for o in outs:
                        yield o
                    ok = False
                    break
                if outs[0].kind != 'normal':
                    yield outs[0]
                    ok = False
                    break
                st1 = outs[0].st
            if ok:
                yield Outcome('normal', st1)

    def vec_store(self, target_expr, vec, idx, v, st, node):
        """component store into a Vec held by a variable / field (value semantics; sharing of the underlying
        array with other holders is the business of the ownership analysis, not of this value-level model)"""
        if not (-len(vec.items) <= idx < len(vec.items)):
            self.safety(st, z3.BoolVal(False), 'index-store', node)
            return
        items = list(vec.items)
        x, k = self.num(v, st, node)
        items[idx] = SV(REAL, z3.ToReal(x) if k == 'int' else x)
        yield from self.assign(target_expr if not isinstance(target_expr, ast.Name) else ast.Name(id=target_expr.id, ctx=ast.Store()), TupV(items, 'Vec'), st)

    def ex_AnnAssign(self, s, st):
        if s.value is None:
            yield Outcome('normal', st)
            return
        yield from self.ex_Assign(ast.Assign(targets=[s.target], value=s.value, lineno=s.lineno), st)

    def assign(self, tgt, v, st):
        """yields Outcomes (normal unless a __setitem__ contract raises)"""
        if isinstance(tgt, ast.Name):
            hint = self.var_type_hint(tgt.id) if st.depth == 0 else None
            if hint is not None or isinstance(v, EmptyV):
                v = self.coerce_to(st, v, hint)
            st.env[tgt.id] = v
            st.record_write(('var', tgt.id))
            yield Outcome('normal', st)
            return
        if isinstance(tgt, (ast.Tuple, ast.List)) and all(isinstance(x, (ast.Name, ast.Tuple, ast.List)) for x in tgt.elts):
            self.bind_target(tgt, v, st)
            yield Outcome('normal', st)
            return
        if isinstance(tgt, (ast.Tuple, ast.List)):
            # unpacking into subscripts / attributes: element-wise assignment, left to right
            vv = self.lift(v)
            if isinstance(vv, SV) and vv.t.kind == 'tuple':
                vv = unpack(st, vv.e, vv.t)
            if not isinstance(vv, TupV) or len(vv.items) != len(tgt.elts):
                if isinstance(vv, TupV):
                    self.safety(st, z3.BoolVal(False), 'unpack-arity', tgt)
                    return
                raise OutOfSubset('unpacking %r into subscripts' % (vv,))

            def rec(i, st0):
                if i == len(tgt.elts):
                    yield Outcome('normal', st0)
                    return
                for o in self.assign(tgt.elts[i], vv.items[i], st0):
                    if o.kind == 'normal':
                        yield from rec(i + 1, o.st)
                    else:
                        yield o
            yield from rec(0, st)
            return
        if isinstance(tgt, ast.Attribute):
            for o, st1 in self.ev(tgt.value, st):
                ol = self.lift(o)
                if isinstance(ol, TupV) and ol.cls == 'Vec' and tgt.attr in ('x', 'y', 'z'):
                    idx = 'xyz'.index(tgt.attr)
                    yield from self.vec_store(tgt.value, ol, idx, v, st1, tgt)
                    continue
                yield from self.setattr(o, tgt.attr, v, st1, tgt)
            return
        if isinstance(tgt, ast.Subscript):
            for o, st1 in self.ev(tgt.value, st):
                if isinstance(tgt.slice, ast.Slice):
                    raise OutOfSubset('slice assignment')
                for i, st2 in self.ev(tgt.slice, st1):
                    o2 = self.deopt(self.lift(o), st2, tgt.value)
                    if isinstance(o2, TupV) and o2.cls == 'Vec':
                        iv = z3.simplify(self.num(i, st2, tgt)[0])
                        if not z3.is_int_value(iv):
                            raise OutOfSubset('symbolic index store into a Vec')
                        yield from self.vec_store(tgt.value, o2, iv.as_long(), v, st2, tgt)
                        continue
                    if isinstance(o2, Ref):
                        c = st2.store[o2.id]
                        if isinstance(c, ListC):
                            self.list_set(st2, o2, i, v, tgt)
                            yield Outcome('normal', st2)
                            continue
                        if isinstance(c, DictC):
                            self.dict_set(st2, o2, i, v)
                            yield Outcome('normal', st2)
                            continue
                        if isinstance(c, ObjC):
                            self.pending_raises.append([])
                            outs = list(self.call_method(o2, '__setitem__', [i, v], {}, st2, tgt))
                            for r in self.pending_raises.pop():
                                yield r
                            for _, st3 in outs:
                                yield Outcome('normal', st3)
                            continue
                    if isinstance(o2, SV) and o2.t.kind == 'map' and st2.spec_ghost:
                        raise OutOfSubset('assign into ghost map: use mapset')
                    raise OutOfSubset('subscript store on %r' % (o2,))
            return
        raise OutOfSubset('assignment target %s' % type(tgt).__name__)

    def ex_AugAssign(self, s, st):
        tgt = s.target
        # evaluate the target's container / object once
        if isinstance(tgt, ast.Name):
            load = ast.Name(id=tgt.id, ctx=ast.Load())
            for cur, st0 in self.ev(load, st):
                for r, st1 in self.ev_or_raise(s.value, st0):
                    if isinstance(r, Outcome):
                        yield r
                        continue
                    curv = self.lift(cur)
                    if isinstance(curv, Ref) and isinstance(st1.store[curv.id], ListC) and isinstance(s.op, ast.Add):
                        self.list_extend(st1, curv, r, s)
                        yield Outcome('normal', st1)
                        continue
                    if isinstance(curv, Ref) and isinstance(st1.store[curv.id], ObjC):
                        yield from self.aug_object(curv, s, r, st1, lambda nv, stx: stx.env.__setitem__(tgt.id, nv))
                        continue
                    nv = self.binop(s.op, curv, r, st1, s)
                    st1.env[tgt.id] = nv
                    st1.record_write(('var', tgt.id))
                    yield Outcome('normal', st1)
            return
        if isinstance(tgt, ast.Attribute):
            for o, st0 in self.ev(tgt.value, st):
                for cur, st1 in self.getattr(o, tgt.attr, st0, tgt):
                    for r, st2 in self.ev_or_raise(s.value, st1):
                        if isinstance(r, Outcome):
                            yield r
                            continue
                        curv = self.lift(cur)
                        if isinstance(curv, Ref) and isinstance(st2.store[curv.id], ListC) and isinstance(s.op, ast.Add):
                            self.list_extend(st2, curv, r, s)
                            yield Outcome('normal', st2)
                            continue
                        if isinstance(curv, Ref) and isinstance(st2.store[curv.id], ObjC):
                            yield from self.aug_object(curv, s, r, st2, None)
                            continue
                        nv = self.binop(s.op, curv, r, st2, s)
                        yield from self.setattr(o, tgt.attr, nv, st2, tgt)
            return
        if isinstance(tgt, ast.Subscript):
            for o, st0 in self.ev(tgt.value, st):
                for i, st1 in self.ev(tgt.slice, st0):
                    for cur, st2 in self.getitem(o, i, st1, tgt):
                        for r, st3 in self.ev_or_raise(s.value, st2):
                            if isinstance(r, Outcome):
                                yield r
                                continue
                            curv = self.lift(cur)
                            if isinstance(curv, Ref) and isinstance(st3.store[curv.id], ListC) and isinstance(s.op, ast.Add):
                                self.list_extend(st3, curv, r, s)
                                yield Outcome('normal', st3)
                                continue
                            nv = self.binop(s.op, curv, r, st3, s)
                            o2 = self.deopt(self.lift(o), st3, tgt.value)
                            c = st3.store[o2.id] if isinstance(o2, Ref) else None
                            if isinstance(c, ListC):
                                self.list_set(st3, o2, i, nv, tgt)
                            elif isinstance(c, DictC):
                                self.dict_set(st3, o2, i, nv)
                            elif isinstance(c, ObjC):
                                for _, st4 in list(self.call_method(o2, '__setitem__', [i, nv], {}, st3, tgt)):
                                    yield Outcome('normal', st4)
                                continue
                            else:
                                raise OutOfSubset('augmented subscript store')
                            yield Outcome('normal', st3)
            return
        raise OutOfSubset('augmented assignment target')

    def aug_object(self, obj, s, r, st, rebind):
        name = {ast.Add: '__iadd__', ast.Sub: '__isub__', ast.Mult: '__imul__'}.get(type(s.op))
        if name is None:
            raise OutOfSubset('augmented op on object')
        self.pending_raises.append([])
        outs = list(self.call_method(obj, name, [r], {}, st, s))
        for rr in self.pending_raises.pop():
            yield rr
        for v, st1 in outs:
            if rebind is not None:
                rebind(v, st1)
            yield Outcome('normal', st1)

    def list_extend(self, st, ref, other, node):
        other = self.lift(other)
        if isinstance(other, SV) and other.t.kind in ('list', 'tuple'):
            other = unpack(st, other.e, other.t)
        if isinstance(other, TupV):
            for x in other.items:
                self.list_append(st, ref, x)
            return
        if isinstance(other, Ref) and isinstance(st.store[other.id], ListC):
            c, o = st.store[ref.id], st.store[other.id]
            i = fresh_const('ex', z3.IntSort())
            oa = o.arr if o.t == c.t else sort_of(c.t).arr(pack(st, other, c.t))
            arr = z3.Lambda([i], z3.If(i < c.n, z3.Select(c.arr, i), z3.Select(oa, i - c.n)))
            st.store[ref.id] = ListC(c.t, arr, c.n + o.n, c.parent)
            st.record_write(('cell', root_of(st, ref).id))
            write_through(st, ref)
            return
        raise OutOfSubset('extend with %r' % (other,))

    def ex_Delete(self, s, st):
        raise OutOfSubset('del')

    # ------------------------------------------------------------------ branching
    def ex_If(self, s, st):
        for c, st1 in self.ev_or_raise(s.test, st):
            if isinstance(c, Outcome):
                yield c
                continue
            cond = z3.simplify(self.truth(c, st1))
            if z3.is_true(cond):
                yield from self.ex_block(s.body, st1)
                continue
            if z3.is_false(cond):
                yield from self.ex_block(s.orelse, st1)
                continue
            stT, stF = st1.fork(), st1
            stT.pc.append(cond); stT.path.append('T%d' % s.lineno)
            stF.pc.append(z3.Not(cond)); stF.path.append('F%d' % s.lineno)
            if self.feasible(stT):
                yield from self.ex_block(s.body, stT)
            if self.feasible(stF):
                yield from self.ex_block(s.orelse, stF)

    def ex_With(self, s, st):
        """only `with np.errstate(all=...)`: numpy's error configuration is saved and restored on every exit"""
        if len(s.items) != 1 or s.items[0].optional_vars is not None:
            raise OutOfSubset('with')
        ce = s.items[0].context_expr
        if not (isinstance(ce, ast.Call) and ast.unparse(ce.func) in ('np.errstate', 'numpy.errstate')):
            raise OutOfSubset('with %s' % ast.unparse(ce)[:40])
        saved = st.env.get('np_errstate')
        kw = {k.arg: k.value for k in ce.keywords}
        if 'all' in kw and isinstance(kw['all'], ast.Constant):
            st.env['np_errstate'] = SV(STR, z3.StringVal(kw['all'].value))
        else:
            st.env['np_errstate'] = SV(STR, fresh_const('errstate', z3.StringSort()))
        for o in self.ex_block(s.body, st):
            if saved is not None:
                o.st.env['np_errstate'] = saved
            yield o

    def ex_Try(self, s, st):
        if s.finalbody or s.orelse:
            raise OutOfSubset('try/finally/else')
        for o in self.ex_block(s.body, st):
            if o.kind != 'raise':
                yield o
                continue
            handled = False
            for h in s.handlers:
                names = []
                if h.type is None:
                    names = None
                elif isinstance(h.type, ast.Tuple):
                    names = [ast.unparse(x).split('.')[-1] for x in h.type.elts]
                else:
                    names = [ast.unparse(h.type).split('.')[-1]]
                if names is None or o.val in names or 'Exception' in names or 'BaseException' in names:
                    if h.name:
                        o.st.env[h.name] = SV(STR, fresh_const('exc', z3.StringSort()))
                    yield from self.ex_block(h.body, o.st)
                    handled = True
                    break
            if not handled:
                yield o

    def ex_FunctionDef(self, s, st):
        st.env[s.name] = FunV('def', s, st.env, module=st.module)
        yield Outcome('normal', st)

    def ex_Break(self, s, st):
        yield Outcome('break', st)

    def ex_Continue(self, s, st):
        yield Outcome('continue', st)

    # ------------------------------------------------------------------ loops
    def loop_spec(self, node):
        fs = self.fn_spec_stack[-1] if self.fn_spec_stack else None
        ordinals = self.loop_ordinals_stack[-1] if self.loop_ordinals_stack else {}
        k = ordinals.get(id(node))
        if fs is None or k is None:
            return k, None
        return k, fs.loops.get(k)

    def ex_For(self, s, st):
        if s.orelse:
            raise OutOfSubset('for/else')
        k, ls = self.loop_spec(s)
        # static unrolling of literal sequences: exact
        if isinstance(s.iter, (ast.List, ast.Tuple)) and (ls is None or ls.unroll):
            def rec(i, st0):
                if i == len(s.iter.elts):
                    yield Outcome('normal', st0)
                    return
                for v, st1 in self.ev(s.iter.elts[i], st0):
                    self.bind_target(s.target, v, st1)
                    st1.env['it%s' % k] = mk_int(i)
                    for o in self.ex_block(s.body, st1):
                        if o.kind in ('normal', 'continue'):
                            yield from rec(i + 1, o.st)
                        elif o.kind == 'break':
                            yield Outcome('normal', o.st)
                        else:
                            yield o
            yield from rec(0, st)
            return
        for itv, st1 in self.ev_or_raise(s.iter, st):
            if isinstance(itv, Outcome):
                yield itv
                continue
            itv = self.lift(itv)
            # small concrete ranges / tuples without a loop contract: unroll exactly
            if ls is None or ls.unroll:
                n, el = self.iter_domain(itv, st1, s.iter)
                nn = z3.simplify(n)
                if z3.is_int_value(nn) and nn.as_long() <= 12:
                    def rec2(i, st0):
                        if i == nn.as_long():
                            yield Outcome('normal', st0)
                            return
                        self.bind_target(s.target, el(z3.IntVal(i), st0), st0)
                        st0.env['it%s' % k] = mk_int(i)
                        for o in self.ex_block(s.body, st0):
                            if o.kind in ('normal', 'continue'):
                                yield from rec2(i + 1, o.st)
                            elif o.kind == 'break':
                                yield Outcome('normal', o.st)
                            else:
                                yield o
                    yield from rec2(0, st1)
                    continue
                if ls is None and self.proves_quick(st1, n == 0, 300):
                    yield Outcome('normal', st1)       # provably no iteration
                    continue
                if ls is None:
                    raise SpecError('loop %s of %s (line %d) needs an invariant' % (k, self.current_fn, s.lineno))
            yield from self.cut_loop(s, st1, k, ls, itv)

    def ex_While(self, s, st):
        if s.orelse:
            raise OutOfSubset('while/else')
        k, ls = self.loop_spec(s)
        if ls is None:
            raise SpecError('loop %s of %s (line %d) needs an invariant' % (k, self.current_fn, s.lineno))
        yield from self.cut_loop(s, st, k, ls, None)

    def written_by(self, s, st, k, itv):
        """locations written by one symbolic iteration of the loop body (recording run)"""
        rec = st.fork()
        rec.recording = set()
        sup = self.suppress_obligations
        self.suppress_obligations = True
        steps = self.steps
        try:
            if isinstance(s, ast.For):
                n, el = self.iter_domain(itv, rec, s.iter)
                i = fresh_const('rit', z3.IntSort())
                rec.pc.append(z3.And(0 <= i, i < n))
                rec.env[('it%s' if isinstance(k, int) else 'it_%s') % k] = SV(INT, i)
                self.bind_target(s.target, el(i, rec), rec)
                body_in = [rec]
            else:
                body_in = []
                rec.env[('it%s' if isinstance(k, int) else 'it_%s') % k] = SV(INT, fresh_const('rit', z3.IntSort()))
                for c, st1 in self.ev_or_raise(s.test, rec):
                    if not isinstance(c, Outcome):
                        body_in.append(st1)
            written = set(rec.recording)
            _, ls = self.loop_spec(s)
            for b in body_in:
                for o in self.ex_block(s.body, b):
                    if ls is not None and o.kind in ('normal', 'continue'):
                        for g in ls.ghost_end:       # ghost updates are writes too (their targets are havoced)
                            try:
                                self.run_ghost(g, o.st)
                            except (OutOfSubset, SpecError, KeyError):
                                for n in ast.walk(ast.Module(body=g, type_ignores=[])):
                                    if isinstance(n, ast.Name) and isinstance(n.ctx, ast.Store):
                                        o.st.recording.add(('var', n.id))
                    written |= o.st.recording
                written |= b.recording
            if ls is not None:
                for g in ls.ghost_end:
                    for n in ast.walk(ast.Module(body=g, type_ignores=[])):
                        if isinstance(n, ast.Name) and isinstance(n.ctx, ast.Store):
                            written.add(('var', n.id))
        finally:
            self.suppress_obligations = sup
            self.steps = steps
        return written

    def havoc(self, st, written, tag):
        for loc in sorted(written, key=repr):
            if loc[0] == 'var':
                name = loc[1]
                if name not in st.env:
                    continue        # first assigned inside the loop: unbound before
                v = st.env[name]
                t = type_of(self.lift(v))
                if isinstance(v, (Ref,)):
                    # the variable is rebound: to keep aliasing exact we require same-type rebinding
                    # to a fresh object; conservatively give it a fresh cell
                    st.env[name] = fresh_value(st, t, '%s@%s' % (name, tag))
                elif isinstance(v, (SV, TupV, OptV, NoneV, int, bool, float)):
                    tt = self.var_type_hint(name) or t
                    if tt.kind == 'none':
                        raise SpecError('variable %s is None before loop %s and reassigned in it: declare its type in `locals`' % (name, tag))
                    st.env[name] = fresh_value(st, tt, '%s@%s' % (name, tag))
                else:
                    raise OutOfSubset('havoc of %r' % (v,))
            elif loc[0] == 'cell':
                if loc[1] not in st.store:
                    continue
                c = st.store[loc[1]]
                if isinstance(c, ListC):
                    tmp = new_list(st, c.t, name='hv%s' % tag)
                    nc = st.store.pop(tmp.id)
                    st.store[loc[1]] = ListC(c.t, nc.arr, nc.n, c.parent)
                elif isinstance(c, DictC):
                    tmp = new_dict(st, c.t, name='hv%s' % tag)
                    nc = st.store.pop(tmp.id)
                    st.store[loc[1]] = DictC(c.t, nc.dom, nc.val, nc.keys, nc.pos, nc.n, c.parent)
                elif isinstance(c, SetC):
                    tmp = new_set(st, c.t, name='hv%s' % tag)
                    nc = st.store.pop(tmp.id)
                    st.store[loc[1]] = SetC(c.t, nc.dom, nc.keys, nc.pos, nc.n, c.parent)
            elif loc[0] == 'field':
                oid, f = loc[1], loc[2]
                if oid not in st.store:
                    continue
                c = st.store[oid]
                old = c.fields.get(f)
                t = self.field_type(c.cls, f) or type_of(self.lift(old))
                nf = dict(c.fields)
                nf[f] = fresh_value(st, t, '%s.%s@%s' % (c.cls.split('.')[-1], f, tag))
                st.store[oid] = ObjC(c.cls, nf)

    def cut_loop(self, s, st, k, ls, itv):
        """classic loop cutting:  assert I; havoc; assume I (& cond); body; assert I (& variant)"""
        tag = 'L%s' % k
        is_for = isinstance(s, ast.For)
        itname = ('it%s' if isinstance(k, int) else 'it_%s') % k
        if is_for:
            n, el = self.iter_domain(itv, st, s.iter)
        written = self.written_by(s, st, k, itv)
        if is_for and isinstance(itv, Ref) and ('cell', root_of(st, itv).id) in written:
            raise OutOfSubset('loop %s mutates the sequence it iterates' % k)
        if is_for and isinstance(itv, (ItemsV, ValuesV)) and ('cell', root_of(st, itv.ref).id) in written:
            # values may be mutated in place (write-through) but keys must not change: checked via keys equality
            pass
        # 1. invariant on entry
        st.env[itname] = mk_int(0)
        if is_for:
            self.bind_loop_target(s, st, el, z3.IntVal(0), n)
        self.check_invariants(ls, st, 'loop%s:inv-entry' % k, s)
        # 2. arbitrary iteration
        hv = st.fork()
        self.havoc(hv, written, tag)
        it = fresh_const(itname, z3.IntSort())
        hv.env[itname] = SV(INT, it)
        hv.pc.append(it >= 0)
        if is_for:
            hv.pc.append(it <= n)
            self.bind_loop_target(s, hv, el, it, n)
        self.assume_invariants(ls, hv, s)
        hv.path.append(tag)
        # 3. exit path
        ex = hv.fork()
        ex.path.append('exit')
        if is_for:
            ex.pc.append(it == n)
            # after the loop the target keeps its last value (if any iteration ran)
            self.bind_loop_target(s, ex, el, it - 1, n, last=True)
            if self.feasible(ex):
                yield Outcome('normal', ex)
        # 4. body path
        body = hv
        body.path.append('body')
        dec0 = None
        if is_for:
            body.pc.append(it < n)
            self.bind_target(s.target, el(it, body), body)
            bodies = [body]
        else:
            bodies = []
            for c, st1 in self.ev_or_raise(s.test, body):
                if isinstance(c, Outcome):
                    yield c
                    continue
                cond = self.truth(c, st1)
                stx = st1.fork()
                stx.pc.append(z3.Not(cond))
                if self.feasible(stx):
                    yield Outcome('normal', stx)
                st1.pc.append(cond)
                bodies.append(st1)
        for b in bodies:
            if not self.feasible(b):
                continue
            if ls.decreases is not None:
                d = self.spec_eval(ls.decreases, b)
                dec0 = self.num(d, b)[0]
            for o in self.ex_block(s.body, b):
                if o.kind in ('normal', 'continue'):
                    e = o.st
                    e.env[itname] = SV(INT, it + 1)
                    if is_for:
                        self.bind_loop_target(s, e, el, it + 1, n)
                    for g in ls.ghost_end:
                        self.run_ghost(g, e)
                    self.check_invariants(ls, e, 'loop%s:inv-preserved' % k, s)
                    if ls.decreases is not None:
                        d1 = self.num(self.spec_eval(ls.decreases, e), e)[0]
                        self.oblige(e, z3.And(dec0 >= 0, d1 < dec0), 'termination', 'loop%s:decreases' % k, s)
                elif o.kind == 'break':
                    yield Outcome('normal', o.st)
                else:
                    yield o

    def bind_loop_target(self, s, st, el, it, n, last=False):
        """for-loops: make the loop target visible to invariants as the *next* element.
        Only simple range/enumerate style targets are bound outside [0,n)."""
        if last:
            # Python leaves the last value; unbound if the loop never ran (use prior binding)
            if isinstance(s.target, ast.Name) and s.target.id in st.env:
                return
            return
        sup = self.suppress_obligations
        self.suppress_obligations = True      # the next element may not exist: this binding is for invariants only, the body binds under it < n
        try:
            self.bind_target(s.target, el(it, st), st)
        except (OutOfSubset, PathEnd, KeyError):
            pass
        finally:
            self.suppress_obligations = sup

    def check_invariants(self, ls, st, label, node):
        for j, inv in enumerate(ls.invariant):
            g = self.spec_eval_bool(inv, st)
            self.oblige(st, g, 'invariant', '%s[%d]' % (label, j), node)

    def assume_invariants(self, ls, st, node):
        for inv in ls.invariant:
            st.assume(self.spec_eval_bool(inv, st))
