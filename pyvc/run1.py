"""debug driver: python3-vt -m pyvc.run1 <spec module> <qualname> ..."""
import sys, importlib, json
from .engine import Engine
from .spec import REG

def main():
    mod = sys.argv[1]
    importlib.import_module(mod)
    eng = Engine()
    quals = sys.argv[2:] or [q for q, f in REG.fns.items() if not f.inline and not f.trusted]
    for q in quals:
        r = eng.verify(q)
        print('==', q, r.status, '%.2fs' % r.time, 'paths=%d' % r.paths, r.reason or '')
        for o in r.obligations:
            flag = '' if o['status'] == 'discharged' else '   <<<<<< ' + o['status']
            print('   %-60s x%d %.2fs%s' % (o['name'], o['instances'], o['time'], flag))
            if o['status'] == 'failed':
                print('      path', o.get('path'))
                m = o.get('model') or {}
                for k in sorted(m)[:40]:
                    print('        ', k, '=', m[k])

main()
